#!/usr/bin/env python3
"""regenerate MANIFEST.json from the table below (kept in one place so that it stays valid)"""
import json, os
HERE = os.path.dirname(os.path.abspath(__file__))
props = [json.loads(l)['id'] for l in open(os.path.join(HERE, 'properties.jsonl'))]
CLAIMS = json.load(open(os.path.join(HERE, 'claims.json')))
checks = []
na = []
for p in props:
    c = CLAIMS.get(p)
    if not c or c.get('not_applicable'):
        na.append({'property_id': p, 'reason': (c or {}).get('reason', 'check not built yet (build in progress, see DESIGN.md section 9)')})
        continue
    checks.append({
        'property_id': p,
        'quick_cmd': f'./check {p} --tier quick',
        'thorough_cmd': f'./check {p} --tier thorough',
        'evidence_file': f'/verif/evidence/{p}.json',
        'replay_cmd_template': f'./check {p} --replay {{path}}',
        'engine': 'tlc',
        'level_claimed': {'category': 'model_checking', 'text': c['text'], 'design_ref': c.get('design_ref', 'DESIGN.md section 4 ' + p)},
        'level_note': c['note'],
        'technique': c['technique'],
    })
m = {
    'version': 1,
    'setup_cmd': 'true',
    'hooks': {
        'guard': 'POKERKIT_VERIF_TRACE',
        'enable': 'no source hooks: the harness wraps State._update at run time when POKERKIT_VERIF_TRACE=1 (set by ./check itself)',
        'baseline_off_cmd': 'cd /repo && /venv/bin/python -m pytest -ra -q -p no:cacheprovider --timeout=900 --continue-on-collection-errors',
        'source_commits': [],
        'add_only': True,
    },
    'engines': [{'name': 'tlc', 'path': '/opt/veriftools/tla/tla2tools.jar', 'serves_properties': [c['property_id'] for c in checks],
                 'kind_free_text': 'TLC 1.8 model checker: exhaustive instances of spec/PokerKit.tla + Rules.tla, and trace validation of '
                                   'executions of the real pokerkit code against the same specification'}],
    'checks': checks,
    'notes': 'see DESIGN.md; ./check <id> [--tier quick|thorough] [--replay path]; known findings in known_findings.json',
    'not_applicable': na,
}
json.dump(m, open(os.path.join(HERE, 'MANIFEST.json'), 'w'), indent=1)
print(len(checks), 'claimed;', len(na), 'not claimed')
