------------------------------- MODULE Hands -------------------------------
(***************************************************************************)
(* Cards and hand strength, written from the rules of the games (not from  *)
(* pokerkit/lookups.py).  A card is an integer 0..51: rank index           *)
(* c \div 4 in deuce..ace order (0 = deuce .. 12 = ace), suit c % 4 in     *)
(* c < d < h < s order.  UNKNOWN = 52 is the placeholder "??".             *)
(*                                                                         *)
(* Strength(t, cards) is an integer, bigger = stronger *after* the low     *)
(* flip, so every hand type is compared with plain integer comparison.     *)
(* NoHand is smaller than every strength.                                  *)
(***************************************************************************)
EXTENDS Integers, Sequences, FiniteSets, SequencesExt, FiniteSetsExt

UNKNOWN == 52
NoHand == -2000000000

R(c) == c \div 4
Su(c) == c % 4
Known(c) == c \in 0..51
ToSetS(s) == {s[i] : i \in DOMAIN s}

\* ordinal of a rank under a rank order: "hi" = ace high (deuce 0 .. ace 12), "lo" = ace low (ace 0 .. king 12)
Ord(o, r) == IF o = "hi" THEN r ELSE (r + 1) % 13
Cnt(o, h, x) == Cardinality({c \in h : Ord(o, R(c)) = x})
Ords(o, h) == {Ord(o, R(c)) : c \in h}
Desc(S) == SetToSortSeq(S, >)
Group(o, h, m) == Desc({x \in Ords(o, h) : Cnt(o, h, x) = m})
\* ranks ordered by multiplicity, then height: the order in which kickers are compared
Order(o, h) == Group(o, h, 4) \o Group(o, h, 3) \o Group(o, h, 2) \o Group(o, h, 1)
Flush(h) == Cardinality({Su(c) : c \in h}) = 1

\* top card of a 5-card straight under ace-high ordinals in a deck whose lowest ordinal is `lowest` (0 standard, 4 short
\* deck, 8 royal); the wheel is the ace plus the four lowest ranks of the deck
StraightTop(h, lowest) ==
  LET X == Ords("hi", h) IN
  IF Cardinality(X) # 5 THEN -1
  ELSE IF Max(X) - Min(X) = 4 THEN Max(X)
  ELSE IF X = {12} \cup (lowest..(lowest + 3)) THEN lowest + 3
  ELSE -1

Pack(c, s) == LET p == s \o [i \in 1..(5 - Len(s)) |-> 0] IN
  c * 371293 + p[1] * 28561 + p[2] * 2197 + p[3] * 169 + p[4] * 13 + p[5]

\* category by multiplicities only: 0 none, 1 pair, 2 two pair, 3 trips, 6 full house, 7 quads
PairCat(o, h) ==
  IF Group(o, h, 4) # <<>> THEN 7
  ELSE IF Group(o, h, 3) # <<>> /\ Group(o, h, 2) # <<>> THEN 6
  ELSE IF Group(o, h, 3) # <<>> THEN 3
  ELSE IF Len(Group(o, h, 2)) = 2 THEN 2
  ELSE IF Len(Group(o, h, 2)) = 1 THEN 1 ELSE 0

\* height of a five-card hand in the high sense; flushOverFull swaps flush and full house (short deck)
High5(h, lowest, flushOverFull) ==
  LET st == StraightTop(h, lowest)
      fl == Flush(h)
      pc == PairCat("hi", h)
      cat == IF st >= 0 /\ fl THEN 8
             ELSE IF pc = 7 THEN 7
             ELSE IF pc = 6 THEN (IF flushOverFull THEN 5 ELSE 6)
             ELSE IF fl THEN (IF flushOverFull THEN 6 ELSE 5)
             ELSE IF st >= 0 THEN 4
             ELSE pc
  IN Pack(cat, IF st >= 0 THEN <<st>> ELSE Order("hi", h))

\* the base hand types (what a set of cards IS); composition rules come below
BaseTypes == {"StandardHigh", "StandardLow", "ShortDeck", "EightOrBetter", "Regular", "Badugi", "StandardBadugi", "Kuhn"}

Valid(t, hs) ==
  LET h == ToSetS(hs) IN
  /\ Cardinality(h) = Len(hs)
  /\ \A c \in h : c \in 0..51
  /\ CASE t \in {"StandardHigh", "StandardLow", "Regular"} -> Len(hs) = 5
       [] t = "ShortDeck" -> Len(hs) = 5 /\ \A c \in h : R(c) >= 4
       [] t = "EightOrBetter" -> Len(hs) = 5 /\ Cardinality(Ords("lo", h)) = 5 /\ \A c \in h : Ord("lo", R(c)) <= 7
       [] t \in {"Badugi", "StandardBadugi"} -> Len(hs) \in 1..4 /\ Cardinality({R(c) : c \in h}) = Len(hs)
                                                  /\ Cardinality({Su(c) : c \in h}) = Len(hs)
       [] t = "Kuhn" -> Len(hs) = 1 /\ R(hs[1]) \in {9, 10, 11}      \* J Q K (the game's deck has only spades)

\* Strength: bigger = stronger (after the low flip)
Strength(t, hs) ==
  LET h == ToSetS(hs) IN
  CASE t = "StandardHigh" -> High5(h, 0, FALSE)
    [] t = "StandardLow" -> 0 - High5(h, 0, FALSE)
    [] t = "ShortDeck" -> High5(h, 4, TRUE)
    [] t = "Regular" -> 0 - Pack(LET pc == PairCat("lo", h) IN CASE pc = 6 -> 4 [] pc = 7 -> 5 [] OTHER -> pc, Order("lo", h))
    [] t = "EightOrBetter" -> 0 - Pack(0, Order("lo", h))
    [] t = "Badugi" -> Len(hs) * 100000 - Pack(0, Order("lo", h)) \div 13 ^ (5 - Len(hs))
    [] t = "StandardBadugi" -> Len(hs) * 100000 - Pack(0, Order("hi", h)) \div 13 ^ (5 - Len(hs))
    [] t = "Kuhn" -> R(hs[1])

IsLow(t) == t \in {"StandardLow", "EightOrBetter", "Regular", "Badugi", "StandardBadugi"}

LabelOf(t, hs) ==
  LET h == ToSetS(hs) IN
  IF t \in {"StandardHigh", "StandardLow", "ShortDeck"} THEN
     LET k == High5(h, IF t = "ShortDeck" THEN 4 ELSE 0, t = "ShortDeck") \div 371293
         names == IF t = "ShortDeck"
                  THEN <<"High card","One pair","Two pair","Three of a kind","Straight","Full house","Flush","Four of a kind","Straight flush">>
                  ELSE <<"High card","One pair","Two pair","Three of a kind","Straight","Flush","Full house","Four of a kind","Straight flush">>
     IN names[k + 1]
  ELSE IF t = "Regular" THEN
     LET pc == PairCat("lo", h) IN
     CASE pc = 0 -> "High card" [] pc = 1 -> "One pair" [] pc = 2 -> "Two pair" [] pc = 3 -> "Three of a kind"
       [] pc = 6 -> "Full house" [] pc = 7 -> "Four of a kind"
  ELSE "High card"

(***************************************************************************)
(* Composition rules: which card sets a player may form from hole + board. *)
(* Game-level hand types: the base types plus "Omaha" (2 hole + 3 board,   *)
(* standard high), "Omaha8" (2 + 3, eight-or-better low) and "Greek" (all  *)
(* hole cards + 3 board cards, standard high).                             *)
(***************************************************************************)
Base(t) == CASE t \in {"Omaha", "Greek"} -> "StandardHigh" [] t = "Omaha8" -> "EightOrBetter" [] OTHER -> t
KSeqs(s, k) == IF k > Cardinality(ToSetS(s)) \/ k < 0 THEN {} ELSE {SetToSeq(x) : x \in kSubset(k, ToSetS(s))}
Legal(t, hole, board) ==
  CASE t \in {"Omaha", "Omaha8"} -> {a \o b : a \in KSeqs(hole, 2), b \in KSeqs(board, 3)}
    [] t = "Greek" -> {hole \o b : b \in KSeqs(board, 3)}      \* both hole cards play: with fewer than two, nothing of five cards exists
    [] t \in {"Badugi", "StandardBadugi"} -> UNION {KSeqs(hole \o board, k) : k \in 1..4}
    [] t = "Kuhn" -> KSeqs(hole \o board, 1)
    [] OTHER -> KSeqs(hole \o board, 5)
Cands(t, hole, board) == {h \in Legal(t, hole, board) : Valid(Base(t), h)}
\* the strength of the best legal hand, NoHand when none can be formed
BestStrength(t, hole, board) ==
  LET S == {Strength(Base(t), h) : h \in Cands(t, hole, board)} IN IF S = {} THEN NoHand ELSE Max(S)

(***************************************************************************)
(* Exposed ("up-card") hands of 1-4 cards, used to decide who opens a stud *)
(* betting round: quads > trips > two pair > pair > high card, then card   *)
(* count, then ranks; no straights, no flushes.                            *)
(***************************************************************************)
ExpCat(o, h) == IF Group(o, h, 4) # <<>> THEN 4 ELSE IF Group(o, h, 3) # <<>> THEN 3
                ELSE IF Len(Group(o, h, 2)) = 2 THEN 2 ELSE IF Len(Group(o, h, 2)) = 1 THEN 1 ELSE 0
Pack4(s) == LET p == s \o [i \in 1..(4 - Len(s)) |-> 0] IN p[1] * 2197 + p[2] * 169 + p[3] * 13 + p[4]
ExposedKey(o, cs) == LET h == ToSetS(cs) IN ExpCat(o, h) * 1000000 + Len(cs) * 100000 + Pack4(Order(o, h))
CardKey(o, c) == Ord(o, R(c)) * 4 + Su(c)
=============================================================================
