----------------------------- MODULE TraceItems -----------------------------
(***************************************************************************)
(* Function-level conformance: every record of the file named by the       *)
(* environment variable ITEMS is one question put to the real code         *)
(* together with the code's answer; TLC evaluates the specification's      *)
(* answer (Hands.tla, Analysis.tla, Values.tla, Rules.tla) and compares.   *)
(* One record = one initial state; the comparison is made in the single    *)
(* step of that behaviour so that all TLC workers share the work.          *)
(*                                                                         *)
(* kinds                                                                   *)
(*   valid : [t, cards, ok]              Hand(cards) accepted by the code  *)
(*   cmp   : [t, a, b, lt, eq, gt, le, ge, ne, heq]   operators on hands   *)
(*   label : [t, cards, label]                                             *)
(*   best  : [t, hole, board, found, cards]   from_game_or_none            *)
(***************************************************************************)
EXTENDS Analysis, Values, Json, IOUtils

Items == ndJsonDeserialize(IOEnv.ITEMS)

VARIABLES i, done
vars == <<i, done>>

Rep(k, it, what) == PrintT(<<"MISMATCH", k, it.kind, what, it>>)

CmpOK(k, it) ==
  LET sa == Strength(it.t, it.a)
      sb == Strength(it.t, it.b)
  IN /\ (it.lt = (sa < sb)) \/ Rep(k, it, "lt")
     /\ (it.gt = (sa > sb)) \/ Rep(k, it, "gt")
     /\ (it.eq = (sa = sb)) \/ Rep(k, it, "eq")
     /\ (it.le = (sa <= sb)) \/ Rep(k, it, "le")
     /\ (it.ge = (sa >= sb)) \/ Rep(k, it, "ge")
     /\ (it.ne = (sa # sb)) \/ Rep(k, it, "ne")
     /\ (sa = sb => it.heq) \/ Rep(k, it, "hash of equal hands")

\* hands of two different types: no answer is required, a given one must be that of one of the two games
CrossOK(k, it) ==
  LET both(t) == Valid(t, it.a) /\ Valid(t, it.b)
      T == {t \in {it.t1, it.t2} : both(t)}
  IN /\ (it.eq = "true" => \E t \in T : Strength(t, it.a) = Strength(t, it.b)) \/ Rep(k, it, "== across types: equal under neither game's rules")
     /\ (it.ne = "false" => \E t \in T : Strength(t, it.a) = Strength(t, it.b)) \/ Rep(k, it, "!= across types: equal under neither game's rules")
     /\ (it.lt = "true" => \E t \in T : Strength(t, it.a) < Strength(t, it.b)) \/ Rep(k, it, "< across types: under neither game's rules")
     /\ (it.lt = "false" => \E t \in T : ~(Strength(t, it.a) < Strength(t, it.b))) \/ Rep(k, it, "< across types: under neither game's rules")
     /\ (it.gt = "true" => \E t \in T : Strength(t, it.a) > Strength(t, it.b)) \/ Rep(k, it, "> across types: under neither game's rules")
     /\ (it.gt = "false" => \E t \in T : ~(Strength(t, it.a) > Strength(t, it.b))) \/ Rep(k, it, "> across types: under neither game's rules")
     /\ ~(it.eq = "true" /\ it.ne = "true") \/ Rep(k, it, "== and != both hold")

BestOK(k, it) ==
  LET C == Cands(it.t, it.hole, it.board) IN
  IF ~it.found THEN C = {} \/ Rep(k, it, <<"a legal hand exists", BestStrength(it.t, it.hole, it.board)>>)
  ELSE /\ C # {} \/ Rep(k, it, "no legal hand exists")
       /\ (\E h \in C : ToSetS(h) = ToSetS(it.cards)) \/ Rep(k, it, "the reported hand is not a legal composition")
       /\ (C # {} /\ Valid(Base(it.t), it.cards)) =>
             (Strength(Base(it.t), it.cards) = BestStrength(it.t, it.hole, it.board)
              \/ Rep(k, it, <<"not the strongest", Strength(Base(it.t), it.cards), BestStrength(it.t, it.hole, it.board)>>))

ItemOK(k, it) ==
  CASE it.kind = "valid" -> (Valid(it.t, it.cards) = it.ok) \/ Rep(k, it, <<"spec says", Valid(it.t, it.cards)>>)
    [] it.kind = "cmp" -> CmpOK(k, it)
    [] it.kind = "cross" -> CrossOK(k, it)
    [] it.kind = "label" -> (LabelOf(it.t, it.cards) = it.label) \/ Rep(k, it, <<"spec says", LabelOf(it.t, it.cards)>>)
    [] it.kind = "best" -> BestOK(k, it)
    [] it.kind \in AnalysisKinds -> AnalysisOK(k, it)
    [] it.kind \in ValuesKinds -> ValuesOK(k, it)
    [] OTHER -> Rep(k, it, "unknown kind")

Force(b) == b = TRUE
Init == i \in DOMAIN Items /\ done = FALSE
Next == ~done /\ done' = TRUE /\ UNCHANGED i /\ Force(ItemOK(i, Items[i]))
Spec == Init /\ [][Next]_vars
=============================================================================
