------------------------------ MODULE Notation ------------------------------
(***************************************************************************)
(* Observation functions of a behaviour of PokerKit: what a hand history   *)
(* (PHH) and a protocol line (ACPC, Pluribus) say about an operation log.  *)
(* A log is a sequence of operation records [k, p, amt, cards, ...] as     *)
(* appended by the model (and projected from State.operations).            *)
(***************************************************************************)
EXTENDS Integers, Sequences, FiniteSets, SequencesExt, FiniteSetsExt

(***************************************************************************)
(* PHH: the actions of a hand are its dealings (hole cards per player,     *)
(* board cards) and the players' actions; antes, blinds, collections,      *)
(* burns, run-out selections, kills, pushes and pulls are mechanical and   *)
(* not written.  Dealings that follow each other without a player action   *)
(* in between are one block: per player the cards in the order dealt, then *)
(* the board cards (how the block was split over calls does not matter).   *)
(***************************************************************************)
Slots == 0..12
EmptyBlock == [i \in Slots |-> <<>>]
FlushBlock(blk) ==
  LET who == SetToSortSeq({i \in 1..12 : blk[i] # <<>>}, <)
  IN [j \in DOMAIN who |-> <<"d", who[j], 0, blk[who[j]]>>] \o (IF blk[0] # <<>> THEN << <<"d", 0, 0, blk[0]>> >> ELSE <<>>)

PhhAct(r) ==
  CASE r.k = "SD" -> <<"sd", r.p, 0, r.cards>>
    [] r.k = "BI" -> <<"pb", r.p, 0, <<>> >>
    [] r.k = "F" -> <<"f", r.p, 0, <<>> >>
    [] r.k = "CC" -> <<"cc", r.p, 0, <<>> >>
    [] r.k = "CBR" -> <<"cbr", r.p, r.amt, <<>> >>
    [] r.k = "SM" -> <<"sm", r.p, 0, r.cards>>

RECURSIVE PhhWalk(_, _, _)
PhhWalk(log, j, blk) ==
  IF j > Len(log) THEN FlushBlock(blk)
  ELSE LET r == log[j] IN
       IF r.k = "HD" THEN PhhWalk(log, j + 1, [blk EXCEPT ![r.p] = @ \o r.cards])
       ELSE IF r.k = "BD" THEN PhhWalk(log, j + 1, [blk EXCEPT ![0] = @ \o r.cards])
       ELSE IF r.k \in {"SD", "BI", "F", "CC", "CBR", "SM"} THEN FlushBlock(blk) \o << PhhAct(r) >> \o PhhWalk(log, j + 1, EmptyBlock)
       ELSE PhhWalk(log, j + 1, blk)
PhhActions(log) == PhhWalk(log, 1, EmptyBlock)
=============================================================================
