------------------------------ MODULE Notation ------------------------------
(***************************************************************************)
(* Observation functions of a behaviour of PokerKit: what a hand history   *)
(* (PHH) and a protocol line (ACPC, Pluribus) say about an operation log.  *)
(* A log is a sequence of operation records [k, p, amt, cards, ...] as     *)
(* appended by the model (and projected from State.operations).            *)
(***************************************************************************)
EXTENDS Integers, Sequences, FiniteSets, SequencesExt, FiniteSetsExt

(***************************************************************************)
(* PHH: the actions of a hand are its dealings (hole cards per player,     *)
(* board cards) and the players' actions; antes, blinds, collections,      *)
(* burns, run-out selections, kills, pushes and pulls are mechanical and   *)
(* not written.  Dealings that follow each other without a player action   *)
(* in between are one block: per player the cards in the order dealt, then *)
(* the board cards (how the block was split over calls does not matter).   *)
(***************************************************************************)
Slots == 0..12
EmptyBlock == [i \in Slots |-> <<>>]
FlushBlock(blk) ==
  LET who == SetToSortSeq({i \in 1..12 : blk[i] # <<>>}, <)
  IN [j \in DOMAIN who |-> <<"d", who[j], 0, blk[who[j]]>>] \o (IF blk[0] # <<>> THEN << <<"d", 0, 0, blk[0]>> >> ELSE <<>>)

PhhAct(r) ==
  CASE r.k = "SD" -> <<"sd", r.p, 0, r.cards>>
    [] r.k = "BI" -> <<"pb", r.p, 0, <<>> >>
    [] r.k = "F" -> <<"f", r.p, 0, <<>> >>
    [] r.k = "CC" -> <<"cc", r.p, 0, <<>> >>
    [] r.k = "CBR" -> <<"cbr", r.p, r.amt, <<>> >>
    [] r.k = "SM" -> <<"sm", r.p, 0, r.cards>>

RECURSIVE PhhWalk(_, _, _)
PhhWalk(log, j, blk) ==
  IF j > Len(log) THEN FlushBlock(blk)
  ELSE LET r == log[j] IN
       IF r.k = "HD" THEN PhhWalk(log, j + 1, [blk EXCEPT ![r.p] = @ \o r.cards])
       ELSE IF r.k = "BD" THEN PhhWalk(log, j + 1, [blk EXCEPT ![0] = @ \o r.cards])
       ELSE IF r.k \in {"SD", "BI", "F", "CC", "CBR", "SM"} THEN FlushBlock(blk) \o << PhhAct(r) >> \o PhhWalk(log, j + 1, EmptyBlock)
       ELSE PhhWalk(log, j + 1, blk)
PhhActions(log) == PhhWalk(log, 1, EmptyBlock)
(***************************************************************************)
(* ACPC / Pluribus protocol.  The dealer's view of a hold'em hand, as seen *)
(* from seat `seat` (0: every seat, the Pluribus form):                    *)
(*   actions : one token per betting action - f, c, r (fixed-limit) or     *)
(*             r<total chips the raiser has committed in the hand> (no-    *)
(*             limit) - and a "/" per board dealing                        *)
(*   holes   : per seat the hole cards the viewer knows: his own, and      *)
(*             those tabled at a showdown                                  *)
(*   boards  : the board cards, one group per dealing                      *)
(* A state message (S) is sent before every betting action and at the end; *)
(* a client message (C), carrying the state it answers and the action, is  *)
(* sent after each of the viewer's own actions.                            *)
(* Tokens: [k |-> "f" | "c" | "r" | "/", a |-> amount or -1].              *)
(***************************************************************************)
Tok(k, a) == [k |-> k, a |-> a]
IsBet(r) == r.k \in {"F", "CC", "CBR"}
KnownCard(c) == c \in 0..51
\* cards dealt or tabled by one operation fill the slots of the seat from the first one (the engine's records of a show
\* list the whole hand; a dealing of two cards lists both)
PutCards(old, cards) == [i \in 1..2 |-> IF i <= Len(cards) /\ KnownCard(cards[i]) THEN <<cards[i]>> ELSE old[i]]
\* cards dealt to a seat fill its empty slots in order, however the dealing was split over operations
RECURSIVE DealCards(_, _)
DealCards(old, cards) ==
  IF cards = <<>> THEN old
  ELSE LET free == {i \in 1..2 : old[i] = <<>>} IN
       IF free = {} THEN old
       ELSE DealCards([old EXCEPT ![Min(free)] = IF KnownCard(Head(cards)) THEN <<Head(cards)>> ELSE <<>>], Tail(cards))

AcpcInit(n) ==
  [acts |-> <<>>, holes |-> [i \in 1..n |-> << <<>>, <<>> >>], boards |-> <<>>,
   com |-> [i \in 1..n |-> 0], bet |-> [i \in 1..n |-> 0], out |-> <<>>, lastBD |-> FALSE]
Msg(X, dir, act) == [dir |-> dir, acts |-> X.acts, holes |-> X.holes, boards |-> X.boards, act |-> act]

RECURSIVE AcpcStep(_, _, _, _)
AcpcStep(X, r, seat, nolimit) ==
  LET p == r.p
      \* chips: what every player has put in so far (com) and has in front of him on this street (bet)
      X1 == CASE r.k \in {"AP", "BP", "CC", "BI"} -> [X EXCEPT !.com[p] = @ + r.amt, !.bet[p] = @ + r.amt]
              [] r.k = "CBR" -> [X EXCEPT !.com[p] = @ + (r.amt - X.bet[p]), !.bet[p] = r.amt]
              [] r.k = "BC" -> [X EXCEPT !.com = [i \in DOMAIN @ |-> @[i] - (X.bet[i] - r.amts[i])], !.bet = [i \in DOMAIN @ |-> 0]]
              [] OTHER -> X
  IN IF r.k # "BD" /\ X.lastBD THEN AcpcStep([X EXCEPT !.lastBD = FALSE], r, seat, nolimit)
     ELSE IF IsBet(r) THEN
       LET tok == CASE r.k = "F" -> Tok("f", -1) [] r.k = "CC" -> Tok("c", -1)
                    [] r.k = "CBR" -> Tok("r", IF nolimit THEN X1.com[p] ELSE -1)
           before == Msg(X, "S", Tok("", -1))
           mine == IF seat # 0 /\ p = seat THEN << Msg(X, "C", tok) >> ELSE <<>>
       IN [X1 EXCEPT !.acts = Append(@, tok), !.out = (IF seat # 0 THEN Append(@, before) ELSE @) \o mine]
     ELSE IF r.k = "HD" THEN (IF seat = 0 \/ p = seat THEN [X1 EXCEPT !.holes[p] = DealCards(@, r.cards)] ELSE X1)
     ELSE IF r.k = "SM" THEN [X1 EXCEPT !.holes[p] = PutCards(@, r.cards)]
     ELSE IF r.k = "BD" THEN
          \* board cards dealt by consecutive operations are one dealing (one street): one separator, one group
          IF X.lastBD THEN [X1 EXCEPT !.boards[Len(X.boards)] = @ \o r.cards]
          ELSE [X1 EXCEPT !.acts = Append(@, Tok("/", -1)), !.boards = Append(@, r.cards), !.lastBD = TRUE]
     ELSE X1

RECURSIVE AcpcWalk(_, _, _, _, _)
AcpcWalk(log, j, X, seat, nolimit) == IF j > Len(log) THEN X ELSE AcpcWalk(log, j + 1, AcpcStep(X, log[j], seat, nolimit), seat, nolimit)

\* the messages of the ACPC form for a viewer, incl. the closing state message
AcpcMessages(log, n, seat, nolimit) ==
  LET X == AcpcWalk(log, 1, AcpcInit(n), seat, nolimit) IN Append(X.out, Msg(X, "S", Tok("", -1)))
\* the Pluribus form: one line for the whole hand, every seat's cards
PluribusState(log, n) == LET X == AcpcWalk(log, 1, AcpcInit(n), 0, TRUE) IN [acts |-> X.acts, holes |-> X.holes, boards |-> X.boards]
=============================================================================
