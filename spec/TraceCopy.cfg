SPECIFICATION Spec
INVARIANT Finished
CHECK_DEADLOCK FALSE
