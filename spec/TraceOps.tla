------------------------------ MODULE TraceOps ------------------------------
(***************************************************************************)
(* The judgements shared by the trace specifications (TraceHands: one hand *)
(* per behaviour; TraceTwin: two related hands per behaviour).  No         *)
(* variables here: every operator takes the model state explicitly.        *)
(***************************************************************************)
EXTENDS PokerKit, Rules, Variants, Json, IOUtils

Diff(m, p) ==
  IF DOMAIN m # DOMAIN p THEN <<"domain", (DOMAIN m) \ (DOMAIN p), (DOMAIN p) \ (DOMAIN m)>>
  ELSE LET D == {f \in DOMAIN m : m[f] # p[f]} IN
       [f \in D |-> IF f = "log"
                    THEN LET j == Min({x \in 1..(MinI(Len(m.log), Len(p.log)) + 1) :
                                          x > Len(m.log) \/ x > Len(p.log) \/ m.log[x] # p.log[x]})
                         IN <<"first difference at", j, IF j <= Len(m.log) THEN m.log[j] ELSE "-", IF j <= Len(p.log) THEN p.log[j] ELSE "-">>
                    ELSE <<m[f], p[f]>>]
DiffFields(m, p) == IF DOMAIN m # DOMAIN p THEN {"domain"} ELSE {f \in DOMAIN m : m[f] # p[f]}
Kinds(log) == {log[j].k : j \in DOMAIN log}

(***************************************************************************)
(* Attribution: which disagreements count for the property PROP this run   *)
(* is deciding ("ALL": every one).  A disagreement is described by its     *)
(* clause, the operation of the step, a set of names (differing state      *)
(* fields or broken rule names) and the kinds of operations logged by the  *)
(* step.                                                                   *)
(***************************************************************************)
P == IF "PROP" \in DOMAIN IOEnv THEN IOEnv.PROP ELSE "ALL"
BetOps == {"fold", "check_or_call", "post_bring_in", "complete_bet_or_raise_to"}
DealOps == {"burn_card", "deal_hole", "deal_board", "stand_pat_or_discard"}
ForcedOps == {"post_ante", "post_blind_or_straddle", "collect_bets", "pull_chips", "create"}
ShowOps == {"show_or_muck_hole_cards", "kill_hand"}
ChipF == {"stacks", "bets", "payoffs"}
PotF == {"fpots", "subpots", "frozen"}
CardF == {"deck", "board", "hole", "up", "burn", "muck", "disc"}
DealF == {"burnPend", "holePend", "boardPend", "drawPend"}
BetF == {"actors", "opener", "bringSt", "complSt", "raiseAmt", "raiseCnt", "acted", "consec"}
RunF == {"selPend", "runout", "runFlag", "retIdx", "retCnt"}
PhaseF == {"status", "street", "antePend", "collPend", "blindPend", "pullPend", "killPend", "fault", "domain"} \cup DealF
StateClauses == {"post", "create"}
ViewBet == {"actor", "turn", "call", "minto", "potto", "maxto"}
TwinClauses == {"twin-state", "twin-log", "twin-flag", "twin-payoffs", "twin-stacks", "twin-actions", "twin-cards", "twin-tokens",
                "twin-unknown-kind", "copy-other-changed", "copy-digest-changed", "copy-diverged"}
RuleClauses == {"rule", "microrule", "steprule"}
RelBase(Q, clause, op, names, kinds) ==
  CASE Q = "ALL" -> TRUE
    [] Q = "C01" -> \/ clause \in RuleClauses /\ names \cap RulesOf("C01") # {}
                    \/ clause \in {"pots", "total-pot"}
                    \/ clause \in StateClauses /\ names \cap ChipF # {} /\ op \in ForcedOps
    [] Q = "C02" -> \/ clause \in RuleClauses /\ names \cap RulesOf("C02") # {}
                    \/ clause = "view" /\ names \cap {"hands", "boards"} # {}
                    \/ clause = "pots"
                    \/ clause \in StateClauses /\ "PUSH" \in kinds /\ names \cap (PotF \cup ChipF \cup {"log"}) # {}
    [] Q = "C03" -> \/ clause \in RuleClauses /\ names \cap RulesOf("C03") # {}
                    \/ clause = "view" /\ names \cap ViewBet # {}
                    \/ clause \in {"probe", "verifier", "outcome", "refused-but-changed"} /\ op \in BetOps
                    \/ clause \in StateClauses /\ names \cap BetF # {}
                    \/ clause \in StateClauses /\ op \in BetOps /\ names \cap (ChipF \cup {"alive", "log", "allin"}) # {}
    [] Q = "C06" -> \/ clause \in RuleClauses /\ names \cap RulesOf("C06") # {}
                    \/ clause \in StateClauses /\ names \cap CardF # {}
    [] Q = "C07" -> \/ clause \in RuleClauses /\ names \cap RulesOf("C07") # {}
                    \/ clause \in {"outcome-other", "create-raised", "fault", "stuck"}
                    \/ clause \in StateClauses /\ names \cap PhaseF # {}
    [] Q = "C08" -> clause = "view" \/ clause \in {"probe", "probe-raised", "verifier", "query-changed-state", "outcome", "outcome-other", "refused-but-changed"}
    [] Q = "C10" -> \/ clause \in RuleClauses /\ names \cap RulesOf("C10") # {}
                    \/ clause = "view" /\ names \cap {"dealee", "drawer"} # {}
                    \/ clause \in {"probe", "verifier", "outcome", "refused-but-changed"} /\ op \in DealOps
                    \/ clause \in StateClauses /\ names \cap (DealF \cup {"hole", "up", "board"}) # {}
                    \/ clause \in StateClauses /\ kinds \cap {"CB", "HD", "BD", "SD"} # {} /\ "log" \in names
    [] Q = "C12" -> \/ clause \in RuleClauses /\ names \cap RulesOf("C12") # {}
                    \/ clause = "view" /\ names \cap {"canwin", "hands", "shower"} # {}
                    \/ clause \in TwinClauses
                    \/ clause \in {"probe", "verifier", "outcome", "refused-but-changed"} /\ op \in ShowOps
                    \/ clause \in StateClauses /\ kinds \cap {"SM", "HK"} # {}
                         /\ names \cap ({"log", "alive", "killPend", "showq", "hole", "up", "muck"} \cup ChipF) # {}
    [] Q = "C13" -> \/ clause \in RuleClauses /\ names \cap RulesOf("C13") # {}
                    \/ clause = "view" /\ names \cap {"actor", "turn"} # {}
                    \/ clause \in StateClauses /\ names \cap {"opener", "actors"} # {}
                    \/ clause \in StateClauses /\ "BI" \in kinds /\ "log" \in names
    [] Q = "C14" -> \/ clause \in RuleClauses /\ names \cap RulesOf("C14") # {}
                    \/ clause = "view" /\ names \cap {"boardcount", "boards"} # {}
                    \/ clause \in {"probe", "verifier", "outcome", "refused-but-changed"} /\ op = "select_runout_count"
                    \/ clause \in StateClauses /\ names \cap (RunF \cup {"board", "boardPend"}) # {}
                    \/ clause \in StateClauses /\ "PUSH" \in kinds /\ names \cap (PotF \cup ChipF \cup {"log"}) # {}
                    \/ clause = "outcome-other" /\ op \in {"push_chips", "show_or_muck_hole_cards", "kill_hand", "deal_board", "select_runout_count"}
    [] Q = "C15" -> \/ clause \in TwinClauses
                    \/ clause \in StateClauses /\ "log" \in names       \* the record of an operation says exactly what was done
    [] Q \in {"C09", "C16", "C17", "C20"} -> clause \in TwinClauses
    [] OTHER -> TRUE
RelevantFor(Q, clause, op, names, kinds) ==
  IF Q = "C11" THEN \/ clause = "variant-config"
                    \/ RelBase("C03", clause, op, names, kinds)
                    \/ RelBase("C10", clause, op, names, kinds)
                    \/ RelBase("C02", clause, op, names, kinds)
  ELSE RelBase(Q, clause, op, names, kinds)
\* a situation the model itself declares outside the engine's rules (fault) is always reported: the harness matches it with
\* the known-findings file
\* ... and so is a query that raises (no property can be decided on a hand whose queries fail)
Relevant(clause, op, names, kinds) == clause \in {"model-fault", "probe-raised"} \/ RelevantFor(P, clause, op, names, kinds)
AllRuleNames == UNION {RulesOf(q) : q \in {"C01", "C02", "C03", "C06", "C07", "C10", "C12", "C13", "C14"}}
WantedRules == IF "RULES" \in DOMAIN IOEnv /\ IOEnv.RULES # "" THEN {IOEnv.RULES}      \* (diagnosis: a single rule by name)
               ELSE IF P = "ALL" THEN AllRuleNames
               ELSE IF P = "C11" THEN RulesOf("C02") \cup RulesOf("C03") \cup RulesOf("C10")
               ELSE RulesOf(P)
\* a show made outside a showdown (before the first deal, or while chips are pushed and pulled) is the named deviation
\* NonStandardShow: it is kept in the hand's log under its own kind so that the rules about order and bounds pass over it
TagLog(St, ev) == IF ev.op = "show_or_muck_hole_cards" /\ St.street = 0 THEN [j \in DOMAIN ev.post.log |-> [ev.post.log[j] EXCEPT !.k = "SMX"]] ELSE ev.post.log

(***************************************************************************)
(* Which configuration the model is instantiated with.  "impl": the one    *)
(* read from the created State.  "spec": for a predefined variant the game *)
(* part (streets, structure, hand types) is the specification's own record *)
(* (Variants.tla), so a game wired differently from what its name says is  *)
(* rejected at the first probe or step where the two differ (C11).         *)
(***************************************************************************)
CfgSrc == IF "CFGSRC" \in DOMAIN IOEnv THEN IOEnv.CFGSRC ELSE "impl"
\* the deck is compared as a set of cards (STANDARD and REGULAR name the same 52 cards, listed in a different order)
GamePart(c) == [streets |-> c.streets, structure |-> c.structure, types |-> c.types]
CfgOf(H) ==
  IF CfgSrc = "spec" /\ H.cfg.variant \in Names
  THEN LET d == Def(H.cfg.variant, H.cfg.sb, H.cfg.bb) IN [H.cfg EXCEPT !.streets = d.streets, !.structure = d.structure, !.types = d.types]
  ELSE H.cfg

Report(t, k, clause, op, names, kinds, info) ==
  IF Relevant(clause, op, names, kinds) THEN PrintT(<<"MISMATCH", t, k, clause, op, names, info>>) ELSE TRUE

\* an observed state carries, besides the abstract state, the implementation's own reports (pots, total)
Core(St) == [f \in (DOMAIN St) \ {"pots", "total", "view"} |-> St[f]]
\* the public read-only properties of the State, as the model derives them from the abstract state
NoneP(b, v) == IF b THEN v ELSE -1
View(C, St) ==
  LET act == St.actors # <<>>
      gate == RaiseGate(C, St)
      holeOK == St.street # 0 /\ HoleGate(St)
      showing == St.showq # <<>> \/ AnyT(St.killPend)
  IN [actor |-> IF act THEN Head(St.actors) ELSE 0,
      turn |-> IF AnyT(St.drawPend) THEN FirstT(St.drawPend) ELSE IF act THEN Head(St.actors) ELSE IF St.showq # <<>> THEN Head(St.showq) ELSE 0,
      call |-> NoneP(act /\ ~St.bringSt, IF act THEN CallAmount(St) ELSE 0),
      minto |-> NoneP(gate, IF gate THEN MinTo(C, St) ELSE 0),
      potto |-> NoneP(gate, IF gate THEN PotTo(C, St) ELSE 0),
      maxto |-> NoneP(gate, IF gate THEN MaxTo(C, St) ELSE 0),
      dealee |-> IF holeOK THEN Dealee(C, St) ELSE 0,
      drawer |-> IF AnyT(St.drawPend) THEN FirstT(St.drawPend) ELSE 0,
      shower |-> IF St.showq # <<>> THEN Head(St.showq) ELSE 0,
      boardcount |-> BoardCount(C, St),
      boards |-> [b \in 1..BoardCount(C, St) |-> BoardCards(C, St, b)],
      hands |-> IF showing THEN [i \in Pl(C) |-> [b \in 1..BoardCount(C, St) |-> [t \in DOMAIN C.types |-> HandStr(C, St, i, b, t) # NoHand]]] ELSE <<>>,
      canwin |-> IF showing THEN [i \in Pl(C) |-> St.alive[i] /\ CanWinNow(C, St, i)] ELSE <<>>]
ObsOK(t, k, op, C, St) ==
  /\ PotsOf(C, St) = St.pots \/ Report(t, k, "pots", op, {}, Kinds(St.log), <<"model", PotsOf(C, St), "code", St.pots>>)
  /\ TotalPot(C, St) = St.total \/ Report(t, k, "total-pot", op, {}, Kinds(St.log), <<"model", TotalPot(C, St), "code", St.total>>)
  /\ ("view" \notin DOMAIN St \/ St.fault # "") \/ LET m == View(C, Core(St)) IN
        m = St.view \/ Report(t, k, "view", op, {f \in DOMAIN m : m[f] # St.view[f]}, Kinds(St.log), [f \in {x \in DOMAIN m : m[x] # St.view[x]} |-> <<m[f], St.view[f]>>])

\* rules on an observed state
RulesOK(t, k, op, C, St) ==
  LET bad == BrokenRules(C, St)
      ctx == (IF Live(St) = 0 THEN {"ctx:nobody-live"} ELSE {})
             \cup (IF "C10_dealt_as_prescribed" \in bad /\ \E r \in DOMAIN St.board : Len(St.board[r]) > BoardCount(C, St)
                   THEN {"ctx:fallback-cards-share-a-row"} ELSE {})
  IN bad = {} \/ Report(t, k, "rule", op, bad \cup ctx, Kinds(St.log), <<>>)

\* rules over the history of the hand (fl: the whole log up to and including this state)
HistOK(t, k, op, C, St, fl) ==
  LET bad == BrokenHistoryRules(C, St, fl, WantedRules)
      ctx == (IF Live(St) = 0 THEN {"ctx:nobody-live"} ELSE {})
             \cup (IF "C13_opener" \in bad /\ C.n = 2 /\ C.blinds[1] = C.blinds[2] /\ St.street = 1 THEN {"ctx:heads-up-equal-blinds"} ELSE {})
             \cup (IF "C13_opener" \in bad /\ St.street = 1 /\ \E i \in Pl(C) : PostsBlind(C, i) > 0 /\ EffBlind(C, i) = 0
                   THEN {"ctx:blind-seat-posted-nothing"} ELSE {})
  IN bad = {} \/ Report(t, k, "rule", op, bad \cup ctx, Kinds(St.log), <<>>)

MicroOK(t, k, op, C, ev) ==
  \A j \in DOMAIN ev.micro :
     LET bad == BrokenMicroRules(C, ev.micro[j]) IN bad = {} \/ Report(t, k, "microrule", op, bad, {ev.micro[j].op.k}, <<j, ev.micro[j]>>)

\* a query answers what the model's guard says and never raises; the verifier raises exactly the modelled refusal; and
\* asking changes nothing (digest over every field of the State before and after the whole batch of questions)
ProbesOK(t, k, C, St, ev) ==
  /\ ev.psame \/ Report(t, k, "query-changed-state", "none", {}, {}, <<>>)
  \* progress (C07): while the hand is not over, one of the operations - asked with default arguments - is available
  /\ LET real == {j \in DOMAIN ev.probes : ev.probes[j].op # "no_operate" /\ ev.probes[j].a = NoArgs /\ ev.probes[j].x = ""} IN
        (St.status /\ real # {} /\ St.fault = "") => ((\E j \in real : ev.probes[j].r) \/ Report(t, k, "stuck", "none", {}, {}, <<"the hand is not over and no operation is available">>))
  /\ \A j \in DOMAIN ev.probes :
       LET pr == ev.probes[j]
           mo == Outcome(C, St, pr.op, pr.a)
       IN /\ IF pr.x # "" THEN Report(t, k, "probe-raised", pr.op, {}, {}, <<pr.a, pr.x>>)
             ELSE (mo = "ok") = pr.r \/ Report(t, k, "probe", pr.op, {}, {}, <<pr.a, "model", mo, "code", pr.r>>)
          /\ pr.v = (IF mo = "ok" THEN "" ELSE mo) \/ Report(t, k, "verifier", pr.op, {}, {}, <<pr.a, "model", mo, "code", pr.v>>)

IsOther(out) == out \notin {"ok", "ValueError", "UserWarning"}

\* the model's view of one recorded step; fl is the log of the hand before the step (history rules are evaluated only when
\* useHist: the twin and copy specifications do not carry the whole log)
StepOK(t, k, C, St, ev, fl, useHist) ==
  /\ ProbesOK(t, k, C, St, ev)
  /\ IF ev.op = "none" THEN TRUE
     ELSE LET mo == Outcome(C, St, ev.op, ev.a) IN
          /\ mo = ev.out \/ Report(t, k, IF IsOther(ev.out) THEN "outcome-other" ELSE "outcome", ev.op, {}, {},
                                     <<ev.a, "model", mo, "code", ev.out>>)
          /\ IF ev.out = "ok" /\ mo = "ok"
             THEN LET m == Apply(C, St, ev.op, ev.a)
                      kinds == Kinds(m.log) \cup Kinds(ev.post.log)
                  IN
                  /\ Core(m) = Core(ev.post)
                        \/ Report(t, k, "post", ev.op, DiffFields(Core(m), Core(ev.post)), kinds, <<ev.a, Diff(Core(m), Core(ev.post))>>)
                  /\ ObsOK(t, k, ev.op, C, ev.post)
                  /\ RulesOK(t, k, ev.op, C, ev.post)
                  /\ (~useHist \/ HistOK(t, k, ev.op, C, ev.post, fl \o TagLog(St, ev)))
                  /\ LET bad == BrokenStepRules(C, St, ev.op, ev.a, ev.post, IF useHist THEN fl ELSE <<>>) \ (IF useHist THEN {} ELSE {"C07_order"}) IN
                        bad = {} \/ Report(t, k, "steprule", ev.op, bad, kinds, <<ev.a>>)
                  /\ MicroOK(t, k, ev.op, C, ev)
             ELSE IF ev.out = "ok" THEN RulesOK(t, k, ev.op, C, ev.post) /\ MicroOK(t, k, ev.op, C, ev)
             ELSE IF IsOther(ev.out) THEN
                  \* the implementation failed part-way; name the situations the model knows the engine has no rule for
                  (mo # "ok") \/ LET m == Apply(C, St, ev.op, ev.a) IN
                                 m.fault = "" \/ Report(t, k, "model-fault", ev.op, {m.fault}, Kinds(m.log), <<ev.a, ev.out>>)
             ELSE ev.same \/ Report(t, k, "refused-but-changed", ev.op, {}, {}, <<ev.a, ev.out>>)

NextState(St, ev) == IF ev.op # "none" /\ (ev.out = "ok" \/ ~ev.same) THEN ev.post ELSE St

\* TLC explores both sides of a disjunction when it evaluates an action or an initial predicate; the checks below must be
\* evaluated as plain (short-circuiting) expressions, hence Force.
Force(b) == b = TRUE

CreateOK(t, H) ==
  IF H.create.out = "ok"
  THEN LET m == Create(CfgOf(H), H.deck0) IN
       /\ ValidConfig(H.cfg) \/ Report(t, 0, "create-accepted-invalid", "create", {}, {}, <<>>)
       /\ (H.cfg.variant \in Names =>
              /\ GamePart(H.cfg) = GamePart(Def(H.cfg.variant, H.cfg.sb, H.cfg.bb))
              /\ {H.cfg.deckcards[j] : j \in DOMAIN H.cfg.deckcards} = DeckCards(Def(H.cfg.variant, H.cfg.sb, H.cfg.bb).deck)
              \* the code the hand-history writer filed the game under (read back and played): its own, or none if it has none
              /\ ("written" \in DOMAIN H.cfg => IF H.cfg.written = "" THEN H.cfg.variant \notin Codes ELSE H.cfg.written = H.cfg.variant))
             \/ Report(t, 0, "variant-config", "create", {}, {}, <<"spec", Def(H.cfg.variant, H.cfg.sb, H.cfg.bb), "code", GamePart(H.cfg)>>)
       /\ Core(m) = Core(H.create.post)
             \/ Report(t, 0, "create", "create", DiffFields(Core(m), Core(H.create.post)), Kinds(m.log) \cup Kinds(H.create.post.log),
                       Diff(Core(m), Core(H.create.post)))
       /\ ObsOK(t, 0, "create", CfgOf(H), H.create.post)
       /\ RulesOK(t, 0, "create", CfgOf(H), H.create.post)
       /\ HistOK(t, 0, "create", CfgOf(H), H.create.post, H.create.post.log)
       /\ MicroOK(t, 0, "create", CfgOf(H), H.create)
  ELSE Report(t, 0, "create-raised", "create", {}, {}, H.create.out)
=============================================================================
