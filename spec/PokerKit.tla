------------------------------ MODULE PokerKit ------------------------------
(***************************************************************************)
(* Operational model of pokerkit.state.State.                              *)
(*                                                                         *)
(* One record S holds the abstract state, one record C the configuration.  *)
(* Every public operation X of the implementation is a pair                *)
(*     V_X(C, S, A)  \in {"ok", "warn", "refuse"}      (the verifier)      *)
(*     D_X(C, S, A)                                    (mutation + chain)  *)
(* and the phase chain (end of a phase -> begin of the next) is written as *)
(* named operators mirroring the grain of the implementation.  Automation  *)
(* is AutoStep/Cascade: the highest-priority automated operation with      *)
(* default arguments, repeated to a fix-point.                             *)
(*                                                                         *)
(* Players, streets, boards and hand types are numbered from 1; 0 means    *)
(* "none".  Cards are integers (module Hands).                             *)
(***************************************************************************)
EXTENDS Hands, TLC

RECURSIVE SumS(_)
SumS(s) == IF s = <<>> THEN 0 ELSE Head(s) + SumS(Tail(s))
MaxS(s) == Max(ToSetS(s))
MinI(a, b) == IF a < b THEN a ELSE b
MaxI(a, b) == IF a > b THEN a ELSE b
AnyT(s) == \E i \in DOMAIN s : s[i]
FirstT(s) == Min({i \in DOMAIN s : s[i]})
InSeq(s, x) == \E i \in DOMAIN s : s[i] = x
IndexOf(s, x) == Min({i \in DOMAIN s : s[i] = x})
DropFirst(s, x) == IF InSeq(s, x) THEN RemoveAt(s, IndexOf(s, x)) ELSE s
FilterIdx(s, P(_)) == LET idx == SetToSortSeq({k \in DOMAIN s : P(k)}, <) IN [j \in DOMAIN idx |-> s[idx[j]]]
KnownOnly(s) == SelectSeq(s, Known)
Flat(ss) == FlattenSeq(ss)
Rot(n, p) == [k \in 1..n |-> ((p - 1 + k - 1) % n) + 1]          \* 1..n rotated so that p comes first
Sign(x) == IF x > 0 THEN 1 ELSE IF x < 0 THEN -1 ELSE 0
Abs(x) == IF x < 0 THEN 0 - x ELSE x
Count(s, P(_)) == Cardinality({i \in DOMAIN s : P(s[i])})
\* number of occurrences of x in s
Occ(s, x) == Cardinality({i \in DOMAIN s : s[i] = x})

Pl(C) == 1..C.n
NStreets(C) == Len(C.streets)
Auto(C, a) == a \in ToSetS(C.autos)
Live(S) == Cardinality({i \in DOMAIN S.alive : S.alive[i]})
StreetOf(C, S) == C.streets[S.street]

Op(k, p, amt, cards, sts, amts, pot, board, type) ==
  [k |-> k, p |-> p, amt |-> amt, cards |-> cards, sts |-> sts, amts |-> amts, pot |-> pot, board |-> board, type |-> type]
L(S, rec) == [S EXCEPT !.log = Append(@, rec)]

(***************************************************************************)
(* Forced bets                                                             *)
(***************************************************************************)
EffAnte(C, i) == MinI(IF C.n = 2 THEN C.antes[3 - i] ELSE C.antes[i], C.stacks0[i])
EffBlind(C, i) == MinI(Abs(IF C.n = 2 THEN C.blinds[3 - i] ELSE C.blinds[i]), C.stacks0[i] - EffAnte(C, i))

(***************************************************************************)
(* Cards: the six piles                                                    *)
(***************************************************************************)
\* the replenishing shuffle, made a pure function of the cards by the harness (keyed sort)
ShufKey(C, c) == (c * C.shufA + C.shufB) % 53
Shuf(C, cards) == SortSeq(cards, LAMBDA a, b : ShufKey(C, a) < ShufKey(C, b))
Reserved(S) == KnownOnly(S.burn \o S.muck \o Flat(S.disc))
\* the cards the engine may deal when k cards are wanted (k = -1: "all")
Dealable(C, S, k) == S.deck \o (IF k = -1 \/ k > Len(S.deck) THEN Shuf(C, Reserved(S)) ELSE <<>>)

RECURSIVE ExtendNew(_, _)
ExtendNew(deck, cards) ==
  IF cards = <<>> THEN deck
  ELSE IF Known(Head(cards)) /\ ~InSeq(deck, Head(cards)) THEN ExtendNew(Append(deck, Head(cards)), Tail(cards))
  ELSE ExtendNew(deck, Tail(cards))

RECURSIVE RemoveEach(_, _)
RemoveEach(S, cards) ==
  IF cards = <<>> THEN S
  ELSE LET c == Head(cards) IN
       RemoveEach([S EXCEPT !.deck = DropFirst(@, c), !.burn = DropFirst(@, c), !.muck = DropFirst(@, c),
                            !.disc = [j \in DOMAIN @ |-> DropFirst(@[j], c)]], Tail(cards))

\* _consume_cards: replenish from burns/muck/discards only when the request strictly contains the remaining deck
Consume(C, S, cards) ==
  LET req == ToSetS(cards)
      dk == ToSetS(S.deck)
      rep == dk \subseteq req /\ dk # req
      S1 == IF rep THEN [S EXCEPT !.deck = ExtendNew(@, Shuf(C, Reserved(S))), !.muck = <<>>, !.burn = <<>>,
                                   !.disc = [j \in DOMAIN @ |-> <<>>]]
            ELSE S
  IN RemoveEach(S1, cards)

\* _verify_cards_consumption: "refuse" (not enough cards), "warn" (a known card that is not dealable), "ok";
\* and the cards it resolves to
CardsVerdict(C, S, A, dflt) ==
  IF A.mode = "cards" THEN
       IF \E k \in DOMAIN A.cards : Known(A.cards[k]) /\ ~InSeq(Dealable(C, S, Len(A.cards)), A.cards[k]) THEN "warn" ELSE "ok"
  ELSE LET k == IF A.mode = "count" THEN A.n ELSE dflt IN
       IF Len(Dealable(C, S, k)) < k THEN "refuse" ELSE "ok"
CardsOf(C, S, A, dflt) ==
  IF A.mode = "cards" THEN A.cards
  ELSE LET k == IF A.mode = "count" THEN A.n ELSE dflt IN
       IF k = 0 THEN <<>>
       ELSE IF k < 0 THEN SubSeq(S.deck, 1, MaxI(0, Len(S.deck) + k))         \* a negative count slices from the end (Python)
       ELSE SubSeq(Dealable(C, S, k), 1, MinI(k, Len(Dealable(C, S, k))))

Muck(S, i) == [S EXCEPT !.muck = @ \o S.hole[i], !.alive[i] = FALSE, !.hole[i] = <<>>, !.up[i] = <<>>]

UpCards(S, i) == FilterIdx(S.hole[i], LAMBDA k : S.up[i][k])
DownCards(S, i) == FilterIdx(S.hole[i], LAMBDA k : ~S.up[i][k])

(***************************************************************************)
(* Boards and hands                                                        *)
(***************************************************************************)
BoardCount(C, S) == IF S.retIdx # 0 THEN C.boards0 * S.runout ELSE C.boards0
BoardCards(C, S, b) ==
  LET mid == SumS([k \in 1..(S.retIdx - 1) |-> C.streets[k].board])
      idx(r) == IF S.retIdx # 0 /\ r <= mid THEN ((b - 1) \div S.runout) + 1 ELSE b
      rows == SetToSortSeq({r \in DOMAIN S.board : idx(r) <= Len(S.board[r])}, <)
  IN [j \in DOMAIN rows |-> S.board[rows[j]][idx(rows[j])]]
AnyUnknown(s) == \E k \in DOMAIN s : ~Known(s[k])
\* get_hand: all of the player's known cards
HandStr(C, S, i, b, t) ==
  IF ~S.alive[i] \/ AnyUnknown(BoardCards(C, S, b)) THEN NoHand
  ELSE BestStrength(C.types[t], KnownOnly(S.hole[i]), BoardCards(C, S, b))
\* get_up_hand: only what the table can see
UpStr(C, S, i, b, t) ==
  IF ~S.alive[i] \/ AnyUnknown(BoardCards(C, S, b)) \/ AnyUnknown(UpCards(S, i)) THEN NoHand
  ELSE BestStrength(C.types[t], UpCards(S, i), BoardCards(C, S, b))

(***************************************************************************)
(* Pots (the `pots` property): by contribution level, equal eligibility    *)
(* merged, each pot raked once                                             *)
(***************************************************************************)
RoundHalfEven(num, den) ==
  LET q == num \div den
      r == num % den
  IN IF 2 * r < den THEN q ELSE IF 2 * r > den THEN q + 1 ELSE IF q % 2 = 0 THEN q ELSE q + 1
Rake(C, S, amount) ==
  IF C.rake.nfnd /\ ~(\E r \in DOMAIN S.board : S.board[r] # <<>>) THEN <<0, amount>>
  ELSE LET raw == RoundHalfEven(amount * C.rake.num, C.rake.den)
           raked == IF C.rake.cap >= 0 THEN MinI(raw, C.rake.cap) ELSE raw
       IN <<raked, amount - raked>>
\* the engine's division of chips: whole chips with a remainder for integer chips; exact (no remainder) for fractional chip
\* types - traces of such runs are in units fine enough that every quotient is a whole number of units (C.exact)
Exact(C) == "exact" \in DOMAIN C /\ C.exact
DivMod(C, a, d) == IF Exact(C) /\ a % d = 0 THEN <<a \div d, 0>> ELSE <<a \div d, a % d>>

RECURSIVE PotLoop(_, _, _, _, _, _, _, _, _)
PotLoop(C, S, contrib, pend, levels, k, prev, amount, pots) ==
  IF k > Len(levels) THEN pots
  ELSE LET lv == levels[k]
           a1 == amount + (lv - prev) * Cardinality({i \in Pl(C) : contrib[i] >= lv})
           players == FilterIdx([i \in Pl(C) |-> i], LAMBDA i : pend[i] >= lv /\ S.alive[i])
           merge == pots # <<>> /\ pots[Len(pots)].players = players
           a2 == IF merge THEN a1 + pots[Len(pots)].raked + pots[Len(pots)].unraked ELSE a1
           pots1 == IF merge THEN Front(pots) ELSE pots
           rk == Rake(C, S, a2)
           pots2 == IF a2 # 0 THEN Append(pots1, [raked |-> rk[1], unraked |-> rk[2], players |-> players]) ELSE pots1
       IN PotLoop(C, S, contrib, pend, levels, k + 1, lv, 0, pots2)

PotsOf(C, S) ==
  IF S.frozen THEN S.fpots
  ELSE IF SumS(S.payoffs) = 0 - SumS(S.bets) THEN <<>>
  ELSE LET sub(i) == IF C.trim THEN 0 ELSE EffAnte(C, i)
           contrib == [i \in Pl(C) |-> (0 - S.payoffs[i]) - S.bets[i] - sub(i)]
           pend == [i \in Pl(C) |-> (0 - S.payoffs[i]) - sub(i)]
           pooled == IF C.trim THEN 0 ELSE SumS([i \in Pl(C) |-> EffAnte(C, i)])
           levels == SetToSortSeq(ToSetS(contrib), <)
       IN PotLoop(C, S, contrib, pend, levels, 1, 0, pooled, <<>>)
PotTotal(pots) == SumS([k \in DOMAIN pots |-> pots[k].raked + pots[k].unraked])
TotalPot(C, S) == SumS(S.bets) + PotTotal(PotsOf(C, S))

\* can_win_now: some board, some hand type, some pot (also pots the player is not in) where his full hand is at least
\* as good as everything the pot's players have exposed
CanWinNow(C, S, i) ==
  LET pots == PotsOf(C, S) IN
  \E b \in 1..BoardCount(C, S), t \in DOMAIN C.types :
     LET h == HandStr(C, S, i, b, t) IN
     /\ h # NoHand
     /\ \E k \in DOMAIN pots :
           LET mx == Max({NoHand} \cup {UpStr(C, S, pots[k].players[j], b, t) : j \in DOMAIN pots[k].players})
           IN mx = NoHand \/ mx <= h

(***************************************************************************)
(* Phase chain, from the end of the hand backwards (each operator is one   *)
(* _begin_X/_end_X of the implementation)                                  *)
(***************************************************************************)
EndHand(C, S) == [S EXCEPT !.status = FALSE, !.pullPend = [i \in Pl(C) |-> FALSE]]

BeginPulling(C, S) ==
  LET S1 == [S EXCEPT !.pullPend = [i \in Pl(C) |-> S.bets[i] > 0]]
  IN IF AnyT(S1.pullPend) THEN S1 ELSE EndHand(C, S1)

\* hand types "in play" for a pot on a board: those for which some player has an exposed qualifying hand.
\* C.typesPerPot = TRUE: among the pot's players (what the rules say); FALSE: among all players (historical behaviour)
TypesInPlay(C, S, pot, b) ==
  LET who == IF C.typesPerPot THEN ToSetS(pot.players) ELSE Pl(C)
  IN SetToSortSeq({t \in DOMAIN C.types : \E i \in who : UpStr(C, S, i, b, t) # NoHand}, <)

RECURSIVE SubPotsOf(_, _, _, _)
SubPotsOf(C, S, pots, k) ==
  IF k > Len(pots) THEN <<>>
  ELSE LET bc == BoardCount(C, S)
           dm == DivMod(C, pots[k].unraked, bc)
           perBoard(b) ==
             LET sub == dm[1] + (IF b = 1 THEN dm[2] ELSE 0)
                 tys == TypesInPlay(C, S, pots[k], b)
                 dm2 == IF tys = <<>> THEN <<0, 0>> ELSE DivMod(C, sub, Len(tys))
                 all == [j \in DOMAIN tys |-> <<dm2[1] + (IF j = 1 THEN dm2[2] ELSE 0), k, b, tys[j]>>]
             IN SelectSeq(all, LAMBDA x : x[1] # 0)
       IN Flat([b \in 1..bc |-> perBoard(b)]) \o SubPotsOf(C, S, pots, k + 1)

\* a pot none of whose eligible players can be awarded it (all of them mucked or folded): the engine has no rule for it
OrphanPot(C, S, pots) ==
  \E k \in DOMAIN pots :
     \/ Live(S) = 1 /\ pots[k].players = <<>>
     \/ Live(S) > 1 /\ \E b \in 1..BoardCount(C, S) : TypesInPlay(C, S, pots[k], b) = <<>>

BeginPushing(C, S) ==
  LET S0 == [S EXCEPT !.street = 0]
      pots == PotsOf(C, S0)
      S1 == [S0 EXCEPT !.fpots = pots, !.frozen = TRUE]
  IN IF Live(S1) >= 1 /\ OrphanPot(C, S1, pots) THEN [S1 EXCEPT !.fault = "OrphanPot"]
     ELSE LET subs == IF Live(S1) = 1 THEN [k \in DOMAIN pots |-> <<pots[k].unraked, k, 0, 0>>]
                      ELSE IF Live(S1) > 1 THEN SubPotsOf(C, S1, pots, 1)
                      ELSE <<>>
              S2 == [S1 EXCEPT !.subpots = subs]
          IN IF subs # <<>> THEN S2 ELSE BeginPulling(C, S2)

BeginKilling(C, S) ==
  LET S1 == [S EXCEPT !.killPend = [i \in Pl(C) |-> S.alive[i] /\ ~CanWinNow(C, S, i)]]
  IN IF AnyT(S1.killPend) THEN S1 ELSE BeginPushing(C, S1)

BeginDealing(C, S) ==
  LET s == S.street + 1
      st == C.streets[s]
      S1 == [S EXCEPT !.street = s, !.burnPend = st.burn,
                      !.boardPend = [b \in 1..C.boards0 |-> st.board],
                      !.holePend = [i \in Pl(C) |-> IF S.alive[i] THEN @[i] \o st.hole ELSE @[i]],
                      !.drawPend = [i \in Pl(C) |-> IF S.alive[i] THEN st.draw ELSE @[i]]]
      want == SumS([i \in Pl(C) |-> Len(S1.holePend[i])])
  IN IF want > Len(Dealable(C, S1, -1))
     THEN [S1 EXCEPT !.boardPend = [b \in 1..C.boards0 |-> @[b] + Len(st.hole)],
                     !.holePend = [i \in Pl(C) |-> <<>>]]
     ELSE S1

EndShowdown(C, S) ==
  LET S1 == IF ~S.runFlag
            THEN IF S.runout # 0 THEN [S EXCEPT !.runFlag = TRUE, !.retIdx = S.street + 1, !.retCnt = S.runout - 1]
                 ELSE [S EXCEPT !.runFlag = TRUE]
            ELSE S
  IN IF Live(S1) = 0 /\ S1.allin /\ S1.street # NStreets(C) THEN [S1 EXCEPT !.fault = "OrphanPot"]     \* everybody has mucked (known finding)
     ELSE IF Live(S1) = 1 THEN BeginPushing(C, S1)      \* everybody else has mucked: the hand is over, nothing more is dealt
     ELSE IF S1.allin /\ S1.street # NStreets(C) THEN BeginDealing(C, S1) ELSE BeginKilling(C, S1)

UpdateShowdown(C, S) ==
  IF S.street = 0 THEN S
  ELSE IF ~AnyT(S.selPend) /\ S.showq = <<>> THEN EndShowdown(C, S)
  ELSE S

BeginShowdown(C, S) ==
  LET offer == ~S.runFlag /\ ~C.tournament /\ \E k \in (S.street + 1)..NStreets(C) : C.streets[k].board > 0
      order == IF S.opener # 0 THEN Rot(C.n, S.opener) ELSE [i \in Pl(C) |-> i]
      allUp(i) == \A k \in DOMAIN S.up[i] : S.up[i][k]
      S1 == [S EXCEPT !.selPend = [i \in Pl(C) |-> IF offer THEN S.alive[i] ELSE @[i]],
                      !.showq = SelectSeq(order, LAMBDA i : S.alive[i] /\ ~allUp(i))]
  IN UpdateShowdown(C, S1)

BeginBlind(C, S) ==
  LET S1 == [S EXCEPT !.blindPend = [i \in Pl(C) |-> EffBlind(C, i) > 0]]
  IN IF AnyT(S1.blindPend) THEN S1 ELSE BeginDealing(C, S1)

EndCollect(C, S) ==
  LET S1 == IF S.street # 0 /\ S.street = NStreets(C) /\ S.retCnt > 0
            THEN [S EXCEPT !.street = S.retIdx - 1, !.retCnt = @ - 1] ELSE S
  IN IF Live(S1) = 1 THEN BeginPushing(C, S1)
     ELSE IF S1.street = 0 THEN BeginBlind(C, S1)
     ELSE IF S1.street = NStreets(C) \/ S1.allin THEN BeginShowdown(C, S1)
     ELSE BeginDealing(C, S1)

BeginCollect(C, S) ==
  LET S1 == [S EXCEPT !.collPend = \E i \in Pl(C) : S.bets[i] # 0]
  IN IF S1.collPend THEN S1 ELSE EndCollect(C, S1)

EndBetting(C, S) ==
  LET laterDraw == \E k \in (S.street + 1)..NStreets(C) : C.streets[k].draw
      withChips == Cardinality({i \in Pl(C) : S.alive[i] /\ S.stacks[i] # 0})
      a1 == Live(S) > 1 /\ ~laterDraw /\ withChips <= 1
      a2 == (\E i \in Pl(C) : S.stacks[i] = 0) /\ S.street = NStreets(C)
      S1 == [S EXCEPT !.actors = <<>>, !.allin = @ \/ a1 \/ a2]
  IN BeginCollect(C, S1)

EffStack(C, S, i) ==
  IF S.street = 0 \/ ~S.alive[i] THEN 0
  ELSE LET tot == SortSeq(FilterIdx([j \in Pl(C) |-> S.bets[j] + S.stacks[j]], LAMBDA j : S.alive[j]), <)
       IN IF Len(tot) < 2 THEN 0 ELSE MinI(S.stacks[i], MaxI(0, tot[Len(tot) - 1] - S.bets[i]))

\* who is designated to open the round (before skipping players who cannot act)
OpenerOf(C, S) ==
  LET st == StreetOf(C, S)
      up(i) == UpCards(S, i)
      noKey(i) == up(i) = <<>> \/ AnyUnknown(up(i))
  IN CASE st.opening = "Position" ->
            LET key(i) == S.bets[i] * Sign(C.blinds[i])
                mx == Max({key(i) : i \in Pl(C)})
            IN (Max({i \in Pl(C) : key(i) = mx}) % C.n) + 1
       [] st.opening = "Low card" ->
            LET k(i) == IF noKey(i) THEN 1000 ELSE Min({CardKey("hi", c) : c \in ToSetS(up(i))})
                mn == Min({k(i) : i \in Pl(C)})
            IN Min({i \in Pl(C) : k(i) = mn})
       [] st.opening = "High card" ->
            LET k(i) == IF noKey(i) THEN -1 ELSE Max({CardKey("lo", c) : c \in ToSetS(up(i))})
                mx == Max({k(i) : i \in Pl(C)})
            IN Min({i \in Pl(C) : k(i) = mx})
       [] st.opening = "Low hand" ->
            LET k(i) == IF noKey(i) \/ Len(up(i)) > 4 THEN 100000000 ELSE ExposedKey("lo", up(i))
                mn == Min({k(i) : i \in Pl(C)})
            IN Min({i \in Pl(C) : k(i) = mn})
       [] st.opening = "High hand" ->
            LET k(i) == IF noKey(i) \/ Len(up(i)) > 4 THEN -1 ELSE ExposedKey("hi", up(i))
                mx == Max({k(i) : i \in Pl(C)})
            IN Min({i \in Pl(C) : k(i) = mx})

BeginBetting(C, S) ==
  LET op == OpenerOf(C, S)
      bi == S.street = 1 /\ C.bringin > 0
      act == SelectSeq(Rot(C.n, op), LAMBDA i : S.alive[i] /\ S.stacks[i] # 0 /\ EffStack(C, S, i) # 0)
      S1 == [S EXCEPT !.opener = op, !.bringSt = bi, !.complSt = bi, !.actors = act, !.raiseAmt = 0, !.raiseCnt = 0,
                      !.acted = [i \in Pl(C) |-> FALSE], !.consec = <<>>]
      done == Len(act) = 1 /\ S.bets[act[1]] >= MaxS(S.bets)
  IN IF act = <<>> \/ Live(S1) <= 1 \/ done THEN EndBetting(C, S1) ELSE S1

UpdateBetting(C, S) == IF S.actors = <<>> \/ Live(S) <= 1 THEN EndBetting(C, S) ELSE S

DealingPending(S) == S.burnPend \/ (\E i \in DOMAIN S.holePend : S.holePend[i] # <<>>)
                     \/ (\E b \in DOMAIN S.boardPend : S.boardPend[b] # 0) \/ AnyT(S.drawPend)
UpdateDealing(C, S) == IF DealingPending(S) THEN S ELSE BeginBetting(C, S)

BeginAnte(C, S) ==
  LET S1 == [S EXCEPT !.antePend = [i \in Pl(C) |-> EffAnte(C, i) > 0]]
  IN IF AnyT(S1.antePend) THEN S1 ELSE BeginCollect(C, S1)

(***************************************************************************)
(* Operations.  A is the argument record                                   *)
(*   [p |-> player or 0, has |-> BOOL, amt |-> Int, mode |-> "default" |   *)
(*    "count" | "cards" | "bool", n |-> Int, cards |-> Seq, b |-> BOOL]    *)
(***************************************************************************)
NoArgs == [p |-> 0, has |-> FALSE, amt |-> 0, mode |-> "default", n |-> 0, cards |-> <<>>, b |-> FALSE]
Worst(a, b) == IF a = "refuse" \/ b = "refuse" THEN "refuse" ELSE IF a = "warn" \/ b = "warn" THEN "warn" ELSE "ok"
ValidP(C, p) == p \in 0..C.n

\* ---- ante posting
AnteP(S, A) == IF A.p = 0 THEN FirstT(S.antePend) ELSE A.p
V_PostAnte(C, S, A) == IF AnyT(S.antePend) /\ S.antePend[AnteP(S, A)] THEN "ok" ELSE "refuse"
D_PostAnte(C, S, A) ==
  LET p == AnteP(S, A)
      a == EffAnte(C, p)
      S1 == L([S EXCEPT !.antePend[p] = FALSE, !.bets[p] = a, !.stacks[p] = @ - a, !.payoffs[p] = @ - a],
              Op("AP", p, a, <<>>, <<>>, <<>>, 0, 0, 0))
  IN IF AnyT(S1.antePend) THEN S1 ELSE BeginCollect(C, S1)

\* ---- bet collection
V_Collect(C, S, A) == IF S.collPend THEN "ok" ELSE "refuse"
D_Collect(C, S, A) ==
  LET lone == IF Live(S) = 1 THEN FirstT(S.alive) ELSE 0
      who == Pl(C) \ {lone}
      trimmed == S.street # 0 \/ C.trim
      cutoff == SortSeq(S.bets, <)[C.n - 1]
      over(i) == IF trimmed /\ i \in who /\ S.bets[i] > cutoff THEN S.bets[i] - cutoff ELSE 0
      rec == [i \in Pl(C) |-> IF i = lone THEN 0 ELSE S.bets[i] - over(i)]
      S1 == L([S EXCEPT !.collPend = FALSE,
                        !.stacks = [i \in Pl(C) |-> @[i] + over(i)],
                        !.payoffs = [i \in Pl(C) |-> @[i] + over(i)],
                        !.bets = [i \in Pl(C) |-> IF i \in who THEN 0 ELSE @[i]]],
              Op("BC", 0, 0, <<>>, <<>>, rec, 0, 0, 0))
  IN EndCollect(C, S1)

\* ---- blind or straddle posting
BlindP(S, A) == IF A.p = 0 THEN FirstT(S.blindPend) ELSE A.p
V_PostBlind(C, S, A) == IF AnyT(S.blindPend) /\ S.blindPend[BlindP(S, A)] THEN "ok" ELSE "refuse"
D_PostBlind(C, S, A) ==
  LET p == BlindP(S, A)
      a == EffBlind(C, p)
      S1 == L([S EXCEPT !.blindPend[p] = FALSE, !.bets[p] = a, !.stacks[p] = @ - a, !.payoffs[p] = @ - a],
              Op("BP", p, a, <<>>, <<>>, <<>>, 0, 0, 0))
  IN IF AnyT(S1.blindPend) THEN S1 ELSE BeginDealing(C, S1)

\* ---- card burning
V_Burn(C, S, A) ==
  LET cv == CardsVerdict(C, S, A, 1) IN
  IF cv = "refuse" THEN "refuse"
  ELSE IF ~S.burnPend \/ AnyT(S.drawPend) \/ Len(CardsOf(C, S, A, 1)) # 1 THEN (IF cv = "warn" /\ C.werr THEN "warn" ELSE "refuse")
  ELSE cv
D_Burn(C, S, A) ==
  LET c == CardsOf(C, S, A, 1)[1]
      S0 == Consume(C, S, <<c>>)
      S1 == L([S0 EXCEPT !.burnPend = FALSE, !.burn = Append(@, c)], Op("CB", 0, 0, <<c>>, <<>>, <<>>, 0, 0, 0))
  IN UpdateDealing(C, S1)

\* ---- hole dealing
HoleGate(S) == ~S.burnPend /\ (\E i \in DOMAIN S.holePend : S.holePend[i] # <<>>) /\ ~AnyT(S.drawPend)
Dealee(C, S) ==
  IF StreetOf(C, S).hole # <<>>
  THEN LET mx == Max({Len(S.holePend[i]) : i \in Pl(C)}) IN Min({i \in Pl(C) : Len(S.holePend[i]) = mx})
  ELSE Min({i \in Pl(C) : S.holePend[i] # <<>>})
V_DealHole(C, S, A) ==
  IF ~HoleGate(S) THEN "refuse"
  ELSE LET cv == CardsVerdict(C, S, A, 1) IN
       IF cv = "refuse" THEN "refuse"
       ELSE LET p == IF A.p = 0 THEN Dealee(C, S) ELSE A.p
                k == Len(CardsOf(C, S, A, 1))
            IN IF S.holePend[p] = <<>> \/ k < 1 \/ k > Len(S.holePend[p]) THEN (IF cv = "warn" /\ C.werr THEN "warn" ELSE "refuse")
               ELSE cv
D_DealHole(C, S, A) ==
  LET p == IF A.p = 0 THEN Dealee(C, S) ELSE A.p
      cs == CardsOf(C, S, A, 1)
      k == Len(cs)
      sts == SubSeq(S.holePend[p], 1, k)
      S0 == Consume(C, S, cs)
      S1 == L([S0 EXCEPT !.holePend[p] = SubSeq(@, k + 1, Len(@)), !.hole[p] = @ \o cs, !.up[p] = @ \o sts],
              Op("HD", p, 0, cs, sts, <<>>, 0, 0, 0))
  IN UpdateDealing(C, S1)

\* ---- board dealing
BoardGate(S) == ~S.burnPend /\ (\E b \in DOMAIN S.boardPend : S.boardPend[b] # 0) /\ ~AnyT(S.drawPend)
BoardWant(S) == S.boardPend[Min({b \in DOMAIN S.boardPend : S.boardPend[b] # 0})]
V_DealBoard(C, S, A) ==
  IF ~BoardGate(S) THEN "refuse"
  ELSE LET cv == CardsVerdict(C, S, A, BoardWant(S)) IN
       IF cv = "refuse" THEN "refuse"
       ELSE LET k == Len(CardsOf(C, S, A, BoardWant(S))) IN
            IF k < 1 \/ k > BoardWant(S) THEN (IF cv = "warn" /\ C.werr THEN "warn" ELSE "refuse") ELSE cv
RECURSIVE PutRows(_, _, _)
PutRows(board, r, cs) ==
  IF cs = <<>> THEN board
  ELSE LET b1 == IF r = Len(board) + 1 THEN Append(board, <<>>) ELSE board
       IN PutRows([b1 EXCEPT ![r] = Append(@, Head(cs))], r + 1, Tail(cs))
D_DealBoard(C, S, A) ==
  LET want == BoardWant(S)
      cs == CardsOf(C, S, A, want)
      base == SumS([k \in 1..(S.street - 1) |-> C.streets[k].board]) + MaxI(StreetOf(C, S).board - want, 0)
      bidx == Min({b \in DOMAIN S.boardPend : S.boardPend[b] = want})
      S0 == Consume(C, S, cs)
      S1 == L([S0 EXCEPT !.boardPend[bidx] = @ - Len(cs), !.board = PutRows(@, base + 1, cs)],
              Op("BD", 0, 0, cs, <<>>, <<>>, 0, 0, 0))
  IN UpdateDealing(C, S1)

\* ---- standing pat or discarding: the discards must be cards the player holds (as a multiset)
V_StandPat(C, S, A) ==
  IF ~AnyT(S.drawPend) THEN "refuse"
  ELSE LET p == FirstT(S.drawPend) IN
       IF \A k \in DOMAIN A.cards : Occ(A.cards, A.cards[k]) <= Occ(S.hole[p], A.cards[k]) THEN "ok" ELSE "refuse"
RECURSIVE Discard(_, _, _)
Discard(S, p, cs) ==
  IF cs = <<>> THEN S
  ELSE LET c == Head(cs)
           ix == IndexOf(S.hole[p], c)
       IN Discard([S EXCEPT !.holePend[p] = Append(@, S.up[p][ix]), !.hole[p] = RemoveAt(@, ix), !.up[p] = RemoveAt(@, ix),
                            !.disc[S.street] = Append(@, c)], p, Tail(cs))
D_StandPat(C, S, A) ==
  LET p == FirstT(S.drawPend)
      S1 == L(Discard([S EXCEPT !.drawPend[p] = FALSE], p, A.cards), Op("SD", p, 0, A.cards, <<>>, <<>>, 0, 0, 0))
  IN UpdateDealing(C, S1)

\* ---- betting
PopActor(S) == [S EXCEPT !.actors = Tail(@), !.acted[Head(S.actors)] = TRUE]

V_Fold(C, S, A) ==
  IF S.actors = <<>> \/ S.bringSt THEN "refuse"
  ELSE IF S.bets[Head(S.actors)] >= MaxS(S.bets) THEN (IF C.tournament THEN "refuse" ELSE "warn") ELSE "ok"
D_Fold(C, S, A) ==
  LET p == Head(S.actors)
      S1 == L(Muck(PopActor(S), p), Op("F", p, 0, <<>>, <<>>, <<>>, 0, 0, 0))
  IN UpdateBetting(C, S1)

CallAmount(S) == LET p == Head(S.actors) IN MinI(S.stacks[p], MaxS(S.bets) - S.bets[p])
V_CheckCall(C, S, A) == IF S.actors = <<>> \/ S.bringSt THEN "refuse" ELSE "ok"
D_CheckCall(C, S, A) ==
  LET p == Head(S.actors)
      a == CallAmount(S)
      S1 == L([PopActor(S) EXCEPT !.bets[p] = @ + a, !.stacks[p] = @ - a, !.payoffs[p] = @ - a],
              Op("CC", p, a, <<>>, <<>>, <<>>, 0, 0, 0))
  IN UpdateBetting(C, S1)

V_BringIn(C, S, A) == IF S.actors = <<>> \/ ~S.bringSt THEN "refuse" ELSE "ok"
D_BringIn(C, S, A) ==
  LET p == Head(S.actors)
      a == MinI(S.stacks[p], C.bringin)
      S1 == L([PopActor(S) EXCEPT !.bets[p] = @ + a, !.stacks[p] = @ - a, !.payoffs[p] = @ - a, !.bringSt = FALSE],
              Op("BI", p, a, <<>>, <<>>, <<>>, 0, 0, 0))
  IN UpdateBetting(C, S1)

RaiseGate(C, S) ==
  /\ S.actors # <<>>
  /\ S.raiseCnt # StreetOf(C, S).maxcnt
  /\ LET p == Head(S.actors) IN
     /\ ~(S.consec # <<>> /\ SumS(S.consec) < S.raiseAmt /\ S.acted[p])
     /\ S.stacks[p] > MaxS(S.bets) - S.bets[p]
     /\ \E j \in Pl(C) : j # p /\ S.alive[j] /\ S.stacks[j] + S.bets[j] > MaxS(S.bets)
MinTo(C, S) ==
  LET p == Head(S.actors)
      a == MaxI(S.raiseAmt, StreetOf(C, S).minbet) + (IF S.complSt THEN 0 ELSE MaxS(S.bets))
  IN MinI(EffStack(C, S, p) + S.bets[p], a)
PotTo(C, S) ==
  LET p == Head(S.actors) IN
  MinI(S.stacks[p] + S.bets[p], MaxI(MinTo(C, S), 2 * MaxS(S.bets) - S.bets[p] + TotalPot(C, S)))
MaxTo(C, S) ==
  LET p == Head(S.actors) IN
  CASE C.structure = "Fixed-limit" -> MinTo(C, S)
    [] C.structure = "Pot-limit" -> PotTo(C, S)
    [] C.structure = "No-limit" -> S.stacks[p] + S.bets[p]
RaiseAmount(C, S, A) == IF A.has THEN A.amt ELSE MinTo(C, S)
V_Raise(C, S, A) ==
  IF ~RaiseGate(C, S) THEN "refuse"
  ELSE IF RaiseAmount(C, S, A) < MinTo(C, S) \/ RaiseAmount(C, S, A) > MaxTo(C, S) THEN "refuse" ELSE "ok"
D_Raise(C, S, A) ==
  LET p == Head(S.actors)
      amt == RaiseAmount(C, S, A)
      inc == amt - MaxS(S.bets)
      delta == amt - S.bets[p]
      S0 == [PopActor(S) EXCEPT !.bets[p] = amt, !.stacks[p] = @ - delta, !.payoffs[p] = @ - delta,
                                !.bringSt = FALSE, !.complSt = FALSE, !.opener = p]
      act == SelectSeq(Tail(Rot(C.n, p)), LAMBDA i : S0.alive[i] /\ S0.stacks[i] # 0)
      S1 == [S0 EXCEPT !.actors = act,
                       !.acted = IF inc >= S.raiseAmt THEN [i \in Pl(C) |-> i = p] ELSE @,
                       !.raiseAmt = MaxI(@, inc), !.raiseCnt = @ + 1,
                       !.consec = IF S0.stacks[p] # 0 THEN <<>> ELSE Append(@, inc)]
  IN UpdateBetting(C, L(S1, Op("CBR", p, amt, <<>>, <<>>, <<>>, 0, 0, 0)))

\* ---- run-out count selection (A.has: a count is given; A.amt the count)
SelP(S, A) == IF A.p = 0 THEN FirstT(S.selPend) ELSE A.p
V_Select(C, S, A) ==
  IF ~AnyT(S.selPend) \/ ~S.selPend[SelP(S, A)] \/ (A.has /\ A.amt < 1) THEN "refuse" ELSE "ok"
D_Select(C, S, A) ==
  LET p == SelP(S, A)
      ro == IF ~A.has THEN S.runout ELSE IF S.runout = 0 THEN A.amt ELSE IF S.runout # A.amt THEN 1 ELSE S.runout
      S1 == L([S EXCEPT !.selPend[p] = FALSE, !.runout = ro], Op("RS", p, IF A.has THEN A.amt ELSE 0, <<>>, <<>>, <<>>, 0, 0, 0))
  IN UpdateShowdown(C, S1)

\* ---- showing or mucking.  mode "default": the engine decides; "bool": A.b; "cards": the given cards are tabled
ShowP(S, A) == IF A.p = 0 THEN (IF S.showq # <<>> THEN Head(S.showq) ELSE 0) ELSE A.p
\* the hand as it lies on the table after an explicit show of `given` by p
ShownHand(C, S, p, given) ==
  LET own == S.hole[p]
      cards == given \o [k \in 1..(Len(own) - Len(given)) |-> UNKNOWN]
      known == KnownOnly(cards)
      fill == IF S.street # NStreets(C)
              THEN LET rest == SelectSeq(KnownOnly(own), LAMBDA c : ~InSeq(known, c))
                   IN SubSeq(rest, 1, MinI(Len(rest), Len(own) - Len(known)))
              ELSE <<>>
      hc == known \o fill
  IN [cards |-> cards,
      hole |-> hc \o [k \in 1..(Len(own) - Len(hc)) |-> UNKNOWN],
      up |-> [k \in 1..Len(own) |-> k <= Len(known)]]
V_Show(C, S, A) ==
  IF S.showq = <<>> /\ S.street # 0 THEN "refuse"
  ELSE IF A.p = 0 /\ S.street = 0 THEN "refuse"
  ELSE LET p == ShowP(S, A) IN
       IF p = 0 \/ ~S.alive[p] \/ (S.street # 0 /\ ~InSeq(S.showq, p)) THEN "refuse"
       ELSE IF A.mode = "cards" /\ Len(A.cards) > Len(S.hole[p]) THEN "refuse"
       ELSE LET status == CASE A.mode = "bool" -> A.b [] A.mode = "cards" -> TRUE [] OTHER -> S.allin \/ CanWinNow(C, S, p)
                sh == IF A.mode = "cards" THEN ShownHand(C, S, p, A.cards)
                      ELSE IF status THEN [cards |-> S.hole[p], hole |-> S.hole[p], up |-> [k \in DOMAIN S.hole[p] |-> TRUE]]
                      ELSE [cards |-> <<>>, hole |-> <<>>, up |-> <<>>]
                new == ToSetS(sh.hole) \ ToSetS(S.hole[p])
                cv == IF A.mode = "cards" /\ \E c \in new : Known(c) /\ ~InSeq(Dealable(C, S, Cardinality(new)), c)
                      THEN "warn" ELSE "ok"
                partial == status /\ Cardinality({k \in DOMAIN sh.cards : Known(sh.cards[k])}) < Len(S.hole[p])
                rest == IF C.tournament /\ partial THEN "refuse"
                        ELSE IF \E k \in DOMAIN sh.hole : ~Known(sh.hole[k]) /\ sh.up[k] THEN "refuse"
                        ELSE IF S.street = 0 /\ (~status \/ \E k \in DOMAIN sh.up : ~sh.up[k]) THEN "refuse"
                        ELSE "ok"
            IN IF cv = "warn" /\ C.werr THEN "warn" ELSE rest
D_Show(C, S, A) ==
  LET p == ShowP(S, A)
      status == CASE A.mode = "bool" -> A.b [] A.mode = "cards" -> TRUE [] OTHER -> S.allin \/ CanWinNow(C, S, p)
      sh == IF A.mode = "cards" THEN ShownHand(C, S, p, A.cards)
            ELSE IF status THEN [cards |-> S.hole[p], hole |-> S.hole[p], up |-> [k \in DOMAIN S.hole[p] |-> TRUE]]
            ELSE [cards |-> <<>>, hole |-> <<>>, up |-> <<>>]
      S0 == IF S.street # 0 THEN [S EXCEPT !.showq = DropFirst(@, p)] ELSE S
      S1 == IF status
            THEN LET Sp == [S0 EXCEPT !.deck = ExtendNew(@, S0.hole[p])]
                     Sc == Consume(C, Sp, KnownOnly(sh.hole))
                 IN [Sc EXCEPT !.hole[p] = sh.hole, !.up[p] = sh.up]
            ELSE Muck(S0, p)
  IN UpdateShowdown(C, L(S1, Op("SM", p, 0, sh.cards, <<>>, <<>>, 0, 0, 0)))

\* ---- hand killing
KillP(S, A) == IF A.p = 0 THEN FirstT(S.killPend) ELSE A.p
V_Kill(C, S, A) == IF AnyT(S.killPend) /\ S.killPend[KillP(S, A)] THEN "ok" ELSE "refuse"
D_Kill(C, S, A) ==
  LET p == KillP(S, A)
      S1 == L(Muck([S EXCEPT !.killPend[p] = FALSE], p), Op("HK", p, 0, <<>>, <<>>, <<>>, 0, 0, 0))
  IN IF AnyT(S1.killPend) THEN S1 ELSE BeginPushing(C, [S1 EXCEPT !.killPend = [i \in Pl(C) |-> FALSE]])

\* ---- chips pushing
V_Push(C, S, A) == IF S.subpots # <<>> THEN "ok" ELSE "refuse"
D_Push(C, S, A) ==
  IF Live(S) = 0 \/ (Live(S) = 1 /\ S.fpots[Head(S.subpots)[2]].players = <<>>) THEN [S EXCEPT !.fault = "OrphanPot"] ELSE
  LET sp == Head(S.subpots)
      amt == sp[1]
      k == sp[2]
      pot == S.fpots[k]
      gain == IF Live(S) = 1 THEN [i \in Pl(C) |-> IF i = pot.players[1] THEN amt ELSE 0]
              ELSE LET str(i) == UpStr(C, S, i, sp[3], sp[4])
                       mx == Max({NoHand} \cup {str(pot.players[j]) : j \in DOMAIN pot.players})
                       win == SelectSeq(pot.players, LAMBDA i : str(i) = mx)
                       dm == DivMod(C, amt, Len(win))
                   IN [i \in Pl(C) |-> IF InSeq(win, i) THEN dm[1] + (IF i = win[1] THEN dm[2] ELSE 0) ELSE 0]
      S1 == L([S EXCEPT !.subpots = Tail(@), !.fpots[k].unraked = @ - amt, !.bets = [i \in Pl(C) |-> @[i] + gain[i]]],
              Op("PUSH", 0, 0, <<>>, <<>>, gain, k, sp[3], sp[4]))
  IN IF S1.subpots # <<>> THEN S1 ELSE BeginPulling(C, S1)

\* ---- chips pulling
PullP(S, A) == IF A.p = 0 THEN FirstT(S.pullPend) ELSE A.p
V_Pull(C, S, A) == IF AnyT(S.pullPend) /\ S.pullPend[PullP(S, A)] THEN "ok" ELSE "refuse"
D_Pull(C, S, A) ==
  LET p == PullP(S, A)
      a == S.bets[p]
      S1 == L([S EXCEPT !.stacks[p] = @ + a, !.payoffs[p] = @ + a, !.bets[p] = 0, !.pullPend[p] = FALSE],
              Op("PULL", p, a, <<>>, <<>>, <<>>, 0, 0, 0))
  IN IF AnyT(S1.pullPend) THEN S1 ELSE EndHand(C, S1)

D_NoOp(C, S, A) == L(S, Op("NOP", 0, 0, <<>>, <<>>, <<>>, 0, 0, 0))

(***************************************************************************)
(* Dispatch                                                                *)
(***************************************************************************)
OpNames == {"post_ante", "collect_bets", "post_blind_or_straddle", "burn_card", "deal_hole", "deal_board",
            "stand_pat_or_discard", "fold", "check_or_call", "post_bring_in", "complete_bet_or_raise_to",
            "select_runout_count", "show_or_muck_hole_cards", "kill_hand", "push_chips", "pull_chips", "no_operate"}

ArgsSane(C, op, A) ==     \* arguments of the documented types: a player index within range
  A.p \in 0..C.n

Verdict(C, S, op, A) ==
  IF S.fault # "" THEN "refuse" ELSE
  CASE op = "post_ante" -> V_PostAnte(C, S, A)
    [] op = "collect_bets" -> V_Collect(C, S, A)
    [] op = "post_blind_or_straddle" -> V_PostBlind(C, S, A)
    [] op = "burn_card" -> V_Burn(C, S, A)
    [] op = "deal_hole" -> V_DealHole(C, S, A)
    [] op = "deal_board" -> V_DealBoard(C, S, A)
    [] op = "stand_pat_or_discard" -> V_StandPat(C, S, A)
    [] op = "fold" -> V_Fold(C, S, A)
    [] op = "check_or_call" -> V_CheckCall(C, S, A)
    [] op = "post_bring_in" -> V_BringIn(C, S, A)
    [] op = "complete_bet_or_raise_to" -> V_Raise(C, S, A)
    [] op = "select_runout_count" -> V_Select(C, S, A)
    [] op = "show_or_muck_hole_cards" -> V_Show(C, S, A)
    [] op = "kill_hand" -> V_Kill(C, S, A)
    [] op = "push_chips" -> V_Push(C, S, A)
    [] op = "pull_chips" -> V_Pull(C, S, A)
    [] op = "no_operate" -> "ok"

\* what the call does: "ok", or the exception it is refused with
Outcome(C, S, op, A) ==
  LET v == Verdict(C, S, op, A) IN
  IF v = "ok" \/ (v = "warn" /\ ~C.werr) THEN "ok" ELSE IF v = "warn" THEN "UserWarning" ELSE "ValueError"
Guard(C, S, op, A) == Outcome(C, S, op, A) = "ok"

Do(C, S, op, A) ==
  CASE op = "post_ante" -> D_PostAnte(C, S, A)
    [] op = "collect_bets" -> D_Collect(C, S, A)
    [] op = "post_blind_or_straddle" -> D_PostBlind(C, S, A)
    [] op = "burn_card" -> D_Burn(C, S, A)
    [] op = "deal_hole" -> D_DealHole(C, S, A)
    [] op = "deal_board" -> D_DealBoard(C, S, A)
    [] op = "stand_pat_or_discard" -> D_StandPat(C, S, A)
    [] op = "fold" -> D_Fold(C, S, A)
    [] op = "check_or_call" -> D_CheckCall(C, S, A)
    [] op = "post_bring_in" -> D_BringIn(C, S, A)
    [] op = "complete_bet_or_raise_to" -> D_Raise(C, S, A)
    [] op = "select_runout_count" -> D_Select(C, S, A)
    [] op = "show_or_muck_hole_cards" -> D_Show(C, S, A)
    [] op = "kill_hand" -> D_Kill(C, S, A)
    [] op = "push_chips" -> D_Push(C, S, A)
    [] op = "pull_chips" -> D_Pull(C, S, A)
    [] op = "no_operate" -> D_NoOp(C, S, A)

(***************************************************************************)
(* Automation: the operation the engine performs by itself, if any.  Only  *)
(* one phase is active at a time; inside the dealing phase the order is    *)
(* burn, hole cards, board cards; inside the showdown run-out selection    *)
(* comes before showing.                                                   *)
(***************************************************************************)
AutoOp(C, S) ==
  IF S.fault # "" THEN ""
  ELSE IF AnyT(S.antePend) THEN (IF Auto(C, "Ante posting") THEN "post_ante" ELSE "")
  ELSE IF S.collPend THEN (IF Auto(C, "Bet collection") THEN "collect_bets" ELSE "")
  ELSE IF AnyT(S.blindPend) THEN (IF Auto(C, "Blind or straddle posting") THEN "post_blind_or_straddle" ELSE "")
  ELSE IF DealingPending(S) THEN
       IF AnyT(S.drawPend) THEN ""
       ELSE IF S.burnPend THEN (IF Auto(C, "Card burning") THEN "burn_card" ELSE "")
       ELSE IF Auto(C, "Hole dealing") /\ (\E i \in DOMAIN S.holePend : S.holePend[i] # <<>>) THEN "deal_hole"
       ELSE IF Auto(C, "Board dealing") /\ (\E b \in DOMAIN S.boardPend : S.boardPend[b] # 0) THEN "deal_board"
       ELSE ""
  ELSE IF S.street # 0 /\ (AnyT(S.selPend) \/ S.showq # <<>>) THEN
       IF Auto(C, "Runout-count selection") /\ AnyT(S.selPend) THEN "select_runout_count"
       ELSE IF Auto(C, "Hole cards showing or mucking") /\ S.showq # <<>> THEN "show_or_muck_hole_cards"
       ELSE ""
  ELSE IF AnyT(S.killPend) THEN (IF Auto(C, "Hand killing") THEN "kill_hand" ELSE "")
  ELSE IF S.subpots # <<>> THEN (IF Auto(C, "Chips pushing") THEN "push_chips" ELSE "")
  ELSE IF AnyT(S.pullPend) THEN (IF Auto(C, "Chips pulling") THEN "pull_chips" ELSE "")
  ELSE ""

\* an automated step whose default-argument operation is refused is a fault of the design (C07: never fails part-way)
AutoStep(C, S) ==
  LET op == AutoOp(C, S) IN
  IF Guard(C, S, op, NoArgs) THEN Do(C, S, op, NoArgs) ELSE [S EXCEPT !.fault = "AutoRefused:" \o op]

RECURSIVE Cascade(_, _)
Cascade(C, S) == IF AutoOp(C, S) = "" THEN S ELSE Cascade(C, AutoStep(C, S))

\* one public call: the operation, then everything automation does before the call returns
Apply(C, S, op, A) == Cascade(C, Do(C, [S EXCEPT !.log = <<>>], op, A))

(***************************************************************************)
(* Creation                                                                *)
(***************************************************************************)
ValidConfig(C) ==
  /\ C.streets # <<>> /\ C.streets[1].hole # <<>>
  /\ \A i \in Pl(C) : C.antes[i] >= 0
  /\ C.bringin >= 0
  /\ (\E i \in Pl(C) : C.antes[i] # 0 \/ C.blinds[i] # 0) \/ C.bringin # 0
  /\ \A i \in Pl(C) : C.stacks0[i] > 0
  /\ ~((\E i \in Pl(C) : C.blinds[i] # 0) /\ C.bringin # 0)
  /\ C.bringin < C.streets[1].minbet
  /\ C.n >= 2 /\ C.boards0 >= 1

Fresh(C, deck) ==
  [status |-> TRUE, street |-> 0, stacks |-> C.stacks0, bets |-> [i \in Pl(C) |-> 0], payoffs |-> [i \in Pl(C) |-> 0],
   alive |-> [i \in Pl(C) |-> TRUE],
   deck |-> deck, board |-> <<>>, hole |-> [i \in Pl(C) |-> <<>>], up |-> [i \in Pl(C) |-> <<>>], burn |-> <<>>, muck |-> <<>>,
   disc |-> [k \in 1..NStreets(C) |-> <<>>],
   antePend |-> [i \in Pl(C) |-> FALSE], collPend |-> FALSE, blindPend |-> [i \in Pl(C) |-> FALSE],
   burnPend |-> FALSE, holePend |-> [i \in Pl(C) |-> <<>>], boardPend |-> [b \in 1..C.boards0 |-> 0],
   drawPend |-> [i \in Pl(C) |-> FALSE],
   opener |-> 0, bringSt |-> FALSE, complSt |-> FALSE, actors |-> <<>>, raiseAmt |-> 0, raiseCnt |-> 0,
   acted |-> [i \in Pl(C) |-> FALSE], consec |-> <<>>,
   selPend |-> [i \in Pl(C) |-> FALSE], runout |-> 0, runFlag |-> FALSE, showq |-> <<>>,
   killPend |-> [i \in Pl(C) |-> FALSE],
   frozen |-> FALSE, fpots |-> <<>>, subpots |-> <<>>,
   pullPend |-> [i \in Pl(C) |-> FALSE],
   retIdx |-> 0, retCnt |-> 0, allin |-> FALSE,
   fault |-> "", log |-> <<>>]

Create(C, deck) == Cascade(C, BeginAnte(C, Fresh(C, deck)))
=============================================================================
