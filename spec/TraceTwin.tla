------------------------------ MODULE TraceTwin ------------------------------
(***************************************************************************)
(* Relations between PAIRS of executions of the real code (C09, C12, C15,  *)
(* C16, C17, C20).  A record of the file named by TRACE holds two hands in *)
(* the format of TraceHands (A and B), the positions at which they must    *)
(* coincide (sync: pairs of step numbers, 0 = right after creation) and    *)
(* the kind of relation.  A behaviour of this specification validates hand *)
(* A step by step against the model, then hand B, then decides the         *)
(* relation:                                                               *)
(*   auto    A ran with automations, B is its manual twin (the user does   *)
(*           every automated step, default arguments, as soon as it is     *)
(*           available): same operation log, same state after every        *)
(*           decision                                                      *)
(*   replay  B re-applies A's operation log to a fresh un-automated state  *)
(*   copy    B continues a deep copy of A: see TraceCopy for independence; *)
(*           here: equal operations give equal states                      *)
(*   show    B is A with every showdown hand tabled and nobody killed      *)
(*           early: same payoffs                                           *)
(*   phh     B is the replay of the hand history written from A and read   *)
(*           back: same actions, cards, stacks, payoffs                    *)
(***************************************************************************)
EXTENDS TraceOps, Notation

Pairs == ndJsonDeserialize(IOEnv.TRACE)

VARIABLES tid, side, l, S
vars == <<tid, side, l, S>>

HandOf(t, sd) == IF sd = "A" THEN Pairs[t].A ELSE Pairs[t].B
Off(sd) == IF sd = "A" THEN 0 ELSE 1000

RECURSIVE LogFrom(_, _)
LogFrom(steps, j) ==
  IF j > Len(steps) THEN <<>>
  ELSE (IF steps[j].op # "none" /\ steps[j].out = "ok" THEN steps[j].post.log ELSE <<>>) \o LogFrom(steps, j + 1)
FullLog(H) == (IF H.create.out = "ok" THEN H.create.post.log ELSE <<>>) \o LogFrom(H.steps, 1)

NoLog(St) == [f \in (DOMAIN St) \ {"log", "pots", "total"} |-> St[f]]
At(H, j) == IF j = 0 THEN H.create.post ELSE H.steps[j].post
Final(H) ==
  LET oks == {j \in DOMAIN H.steps : H.steps[j].op # "none" /\ H.steps[j].out = "ok"}
  IN IF oks = {} THEN H.create.post ELSE H.steps[Max(oks)].post

FirstDiff(a, b) ==
  LET n == MinI(Len(a), Len(b))
      D == {x \in 1..n : a[x] # b[x]}
  IN IF D # {} THEN <<Min(D), a[Min(D)], b[Min(D)]>>
     ELSE <<n + 1, IF Len(a) > n THEN a[n + 1] ELSE "-", IF Len(b) > n THEN b[n + 1] ELSE "-">>

SyncOK(t, Pr) ==
  \A x \in DOMAIN Pr.sync :
     LET a == NoLog(At(Pr.A, Pr.sync[x][1]))
         b == NoLog(At(Pr.B, Pr.sync[x][2]))
     IN a = b \/ Report(t, Pr.sync[x][1], "twin-state", Pr.kind, DiffFields(a, b), {}, <<Pr.sync[x], Diff(a, b)>>)

LogsOK(t, Pr) ==
  LET a == FullLog(Pr.A)
      b == FullLog(Pr.B)
  IN a = b \/ Report(t, 0, "twin-log", Pr.kind, {}, {}, <<"lengths", Len(a), Len(b), "first difference", FirstDiff(a, b)>>)

FlagsOK(t, Pr) ==
  \A x \in DOMAIN Pr.flags : Pr.flags[x][2] \/ Report(t, 0, "twin-flag", Pr.kind, {Pr.flags[x][1]}, {}, <<>>)

PayoffsOK(t, Pr) ==
  LET a == Final(Pr.A)
      b == Final(Pr.B)
  IN /\ a.payoffs = b.payoffs \/ Report(t, 0, "twin-payoffs", Pr.kind, {}, {}, <<a.payoffs, b.payoffs>>)
     /\ a.stacks = b.stacks \/ Report(t, 0, "twin-stacks", Pr.kind, {}, {}, <<a.stacks, b.stacks>>)

\* A history written from a hand that is over must replay to exactly its actions.  One written from a hand cut short replays
\* to those actions and then goes on with the mechanical completion of omitted steps (unknown cards, shows): the original's
\* actions up to the last player action are a prefix of the replay's, and each dealing it had begun after that is continued.
LastAct(a) == Max({0} \cup {j \in DOMAIN a : a[j][1] # "d"})
ActionsOK(t, Pr, a, b) ==
  IF ~Final(Pr.A).status THEN a = b \/ Report(t, 0, "twin-actions", Pr.kind, {}, {}, <<"first difference", FirstDiff(a, b)>>)
  ELSE LET n == LastAct(a)
           blockB == {j \in (n + 1)..Len(b) : \A x \in (n + 1)..j : b[x][1] = "d"}
       IN /\ (n <= Len(b) /\ SubSeq(a, 1, n) = SubSeq(b, 1, n))
                \/ Report(t, 0, "twin-actions", Pr.kind, {}, {}, <<"first difference", FirstDiff(SubSeq(a, 1, n), b)>>)
          /\ \A j \in (n + 1)..Len(a) :
                (\E x \in blockB : b[x][2] = a[j][2] /\ Len(b[x][4]) >= Len(a[j][4]) /\ SubSeq(b[x][4], 1, Len(a[j][4])) = a[j][4])
                \/ Report(t, 0, "twin-actions", Pr.kind, {}, {}, <<"dealing not continued", a[j]>>)

PhhOK(t, Pr) ==
  LET a == PhhActions(FullLog(Pr.A))
      b == PhhActions(FullLog(Pr.B))
  IN /\ ActionsOK(t, Pr, a, b)
     /\ Final(Pr.A).status \/ PayoffsOK(t, Pr)
     /\ LET fa == Final(Pr.A)
            fb == Final(Pr.B)
        IN /\ (~fa.status => fa.board = fb.board) \/ Report(t, 0, "twin-cards", Pr.kind, {"board"}, {}, <<fa.board, fb.board>>)
           /\ (~fa.status => ~fb.status) \/ Report(t, 0, "twin-state", Pr.kind, {"status"}, {}, <<fa.status, fb.status>>)
           /\ (~fa.status => fa.hole = fb.hole) \/ Report(t, 0, "twin-cards", Pr.kind, {"hole"}, {}, <<fa.hole, fb.hole>>)

\* ACPC / Pluribus: the tokenised protocol lines produced by the library against the observation functions of the log
FlatHoles(m) == [m EXCEPT !.holes = [i \in DOMAIN @ |-> FlattenSeq(@[i])]]
AcpcOK(t, Pr) ==
  LET full == FullLog(Pr.A)
      log == IF Pr.cut > 0 THEN SubSeq(full, 1, Pr.cut) ELSE full
  IN /\ \A v \in DOMAIN Pr.views :
          LET want == LET ms == AcpcMessages(log, Pr.n, Pr.views[v].seat, Pr.nolimit) IN [j \in DOMAIN ms |-> FlatHoles(ms[j])]
              got == Pr.views[v].msgs
          IN want = got \/ Report(t, 0, "twin-tokens", "acpc", {}, {}, <<"seat", Pr.views[v].seat, "first difference", FirstDiff(want, got)>>)
     /\ Pr.pluribus.present =>
          LET want == FlatHoles(PluribusState(full, Pr.n))
              fin == Final(Pr.A)
          IN /\ [acts |-> Pr.pluribus.acts, holes |-> Pr.pluribus.holes, boards |-> Pr.pluribus.boards] = want
                  \/ Report(t, 0, "twin-tokens", "pluribus", {}, {}, <<"spec", want, "code", Pr.pluribus>>)
             /\ Pr.pluribus.payoffs = fin.payoffs \/ Report(t, 0, "twin-payoffs", "pluribus", {}, {}, <<fin.payoffs, Pr.pluribus.payoffs>>)
     /\ Pr.parsed =>
          LET bet(a) == SelectSeq(a, LAMBDA x : x[1] \in {"f", "cc", "cbr"})
              a == bet(PhhActions(full))
              b == bet(PhhActions(FullLog(Pr.B)))
              fa == Final(Pr.A)
              fb == Final(Pr.B)
          IN /\ a = b \/ Report(t, 0, "twin-actions", "acpc-parse", {}, {}, <<"first difference", FirstDiff(a, b)>>)
             /\ fa.stacks = fb.stacks \/ Report(t, 0, "twin-stacks", "acpc-parse", {}, {}, <<fa.stacks, fb.stacks>>)
             /\ Flat(fa.board) = Flat(fb.board) \/ Report(t, 0, "twin-cards", "acpc-parse", {"board"}, {}, <<fa.board, fb.board>>)

\* C20: a hand rendered as a site log and imported back: same betting actions (raises in raise-to form), board, chips
SiteOK(t, Pr) ==
  Pr.parsed =>
    LET bet(a) == SelectSeq(a, LAMBDA x : x[1] \in {"f", "cc", "cbr"})
        a == bet(PhhActions(FullLog(Pr.A)))
        b == bet(PhhActions(FullLog(Pr.B)))
        fa == Final(Pr.A)
        fb == Final(Pr.B)
    IN /\ a = b \/ Report(t, 0, "twin-actions", Pr.site, {}, {}, <<"first difference", FirstDiff(a, b)>>)
       /\ fa.stacks = fb.stacks \/ Report(t, 0, "twin-stacks", Pr.site, {}, {}, <<fa.stacks, fb.stacks>>)
       /\ fa.payoffs = fb.payoffs \/ Report(t, 0, "twin-payoffs", Pr.site, {}, {}, <<fa.payoffs, fb.payoffs>>)
       /\ Flat(fa.board) = Flat(fb.board) \/ Report(t, 0, "twin-cards", Pr.site, {"board"}, {}, <<fa.board, fb.board>>)
       /\ (~fa.status => ~fb.status) \/ Report(t, 0, "twin-state", Pr.site, {"status"}, {}, <<fa.status, fb.status>>)

TwinOK(t, Pr) ==
  /\ FlagsOK(t, Pr)
  /\ CASE Pr.kind = "auto" -> LogsOK(t, Pr) /\ SyncOK(t, Pr)
       [] Pr.kind = "replay" -> LogsOK(t, Pr) /\ SyncOK(t, Pr)
       [] Pr.kind = "copy" -> SyncOK(t, Pr)
       [] Pr.kind = "show" -> PayoffsOK(t, Pr)
       [] Pr.kind = "phh" -> PhhOK(t, Pr)
       [] Pr.kind = "acpc" -> AcpcOK(t, Pr)
       [] Pr.kind = "site" -> SiteOK(t, Pr)
       [] OTHER -> Report(t, 0, "twin-unknown-kind", Pr.kind, {}, {}, <<>>)

Init ==
  /\ tid \in DOMAIN Pairs
  /\ side = "A"
  /\ l = 0
  /\ Force(CreateOK(tid, Pairs[tid].A))
  /\ S = IF Pairs[tid].A.create.out = "ok" THEN Pairs[tid].A.create.post ELSE [fault |-> "create"]

EndOf(H) == l = Len(H.steps) \/ S.fault # ""
\* a "raw" hand is not validated step by step (a replay driven by the library itself): only its log and final state are used
IsRaw(H) == "raw" \in DOMAIN H /\ H.raw

Next ==
  \/ /\ side \in {"A", "B"}
     /\ ~EndOf(HandOf(tid, side))
     /\ LET H == HandOf(tid, side)
            ev == H.steps[l + 1]
        IN /\ Force(StepOK(tid, Off(side) + l + 1, CfgOf(H), S, ev, <<>>, FALSE))
           /\ S' = NextState(S, ev)
           /\ l' = l + 1
           /\ UNCHANGED <<tid, side>>
  \/ /\ side = "A"
     /\ EndOf(Pairs[tid].A)
     /\ side' = "B"
     /\ l' = 0
     /\ Force(IsRaw(Pairs[tid].B) \/ CreateOK(tid, Pairs[tid].B))
     /\ S' = IF Pairs[tid].B.create.out = "ok" THEN Pairs[tid].B.create.post ELSE [fault |-> "create"]
     /\ UNCHANGED tid
  \/ /\ side = "B"
     /\ EndOf(Pairs[tid].B)
     /\ side' = "X"
     /\ Force(TwinOK(tid, Pairs[tid]))
     /\ Force(PrintT(<<"DONE", tid, l>>))
     /\ UNCHANGED <<tid, l, S>>

Spec == Init /\ [][Next]_vars
=============================================================================
