SPECIFICATION Spec
CHECK_DEADLOCK FALSE
INVARIANT OnlyKnownFaults
INVARIANT Inv_C01_conserved
INVARIANT Inv_C01_nonneg
INVARIANT Inv_C01_payoff
INVARIANT Inv_C01_terminal
INVARIANT Inv_C06_partition
INVARIANT Inv_C07_one_phase
INVARIANT Inv_C07_something_to_do
INVARIANT Inv_C10_dealt
INVARIANT Inv_C14_offer
INVARIANT Inv_C02_award
INVARIANT Inv_C02_corollaries
INVARIANT Inv_C03_betting
INVARIANT Inv_C07_bound
INVARIANT Inv_C10_burns
INVARIANT Inv_C13_opener
INVARIANT Inv_C14_consensus
INVARIANT Inv_C14_once
INVARIANT Inv_C14_boards
INVARIANT Inv_C08_total
INVARIANT Inv_C12_show
INVARIANT Inv_C12_kill
INVARIANT Inv_C15_replay
INVARIANT Emit
PROPERTY Prop_C07_order
PROPERTY Prop_C01_step
