------------------------------ MODULE Variants ------------------------------
(***************************************************************************)
(* The twelve predefined games as their names and the documentation        *)
(* describe them (C11) - written from the rules of the games, not read     *)
(* from pokerkit/games.py.  Def(v, sb, bb) is the game part of a           *)
(* configuration: deck, hand types, betting structure and street list, for *)
(* small bet sb and big bet bb (no-limit / pot-limit games: the minimum    *)
(* bet bb on every street).                                                *)
(***************************************************************************)
EXTENDS Integers, Sequences

Street(burn, hole, board, draw, opening, minbet, cap) ==
  [burn |-> burn, hole |-> hole, board |-> board, draw |-> draw, opening |-> opening, minbet |-> minbet, maxcnt |-> cap]
FaceDown(k) == [i \in 1..k |-> FALSE]
NoCap == -1
FLCap == 4          \* a bet and three raises

\* community-card games: k hole cards face down, then flop (3), turn (1), river (1), a card burnt before each
Flop(k, early, late, cap) ==
  << Street(FALSE, FaceDown(k), 0, FALSE, "Position", early, cap),
     Street(TRUE, <<>>, 3, FALSE, "Position", early, cap),
     Street(TRUE, <<>>, 1, FALSE, "Position", late, cap),
     Street(TRUE, <<>>, 1, FALSE, "Position", late, cap) >>

\* seven card stud: two down and one up, three more up, the last one down; the bring-in is forced on the lowest (razz:
\* highest) door card, later rounds are opened by the best (razz: lowest) exposed hand; small bet on 3rd and 4th street
Stud(low, sb, bb) ==
  LET later == IF low THEN "Low hand" ELSE "High hand" IN
  << Street(FALSE, <<FALSE, FALSE, TRUE>>, 0, FALSE, IF low THEN "High card" ELSE "Low card", sb, FLCap),
     Street(TRUE, <<TRUE>>, 0, FALSE, later, sb, FLCap),
     Street(TRUE, <<TRUE>>, 0, FALSE, later, bb, FLCap),
     Street(TRUE, <<TRUE>>, 0, FALSE, later, bb, FLCap),
     Street(TRUE, <<FALSE>>, 0, FALSE, later, bb, FLCap) >>

\* draw games: k cards face down, then d drawing rounds (a card burnt before the replacements), a betting round after each;
\* in limit games the big bet applies to the second half of the betting rounds
Draw(k, d, sb, bb, cap) ==
  << Street(FALSE, FaceDown(k), 0, FALSE, "Position", sb, cap) >>
  \o [j \in 1..d |-> Street(TRUE, <<>>, 0, TRUE, "Position", IF 2 * (j + 1) > d + 1 THEN bb ELSE sb, cap)]

Def(v, sb, bb) ==
  CASE v = "FT" -> [deck |-> "STANDARD", types |-> <<"StandardHigh">>, structure |-> "Fixed-limit", streets |-> Flop(2, sb, bb, FLCap)]
    [] v = "NT" -> [deck |-> "STANDARD", types |-> <<"StandardHigh">>, structure |-> "No-limit", streets |-> Flop(2, bb, bb, NoCap)]
    [] v = "NR" -> [deck |-> "ROYAL_POKER", types |-> <<"StandardHigh">>, structure |-> "No-limit", streets |-> Flop(2, bb, bb, NoCap)]
    [] v = "NS" -> [deck |-> "SHORT_DECK_HOLDEM", types |-> <<"ShortDeck">>, structure |-> "No-limit", streets |-> Flop(2, bb, bb, NoCap)]
    [] v = "PO" -> [deck |-> "STANDARD", types |-> <<"Omaha">>, structure |-> "Pot-limit", streets |-> Flop(4, bb, bb, NoCap)]
    [] v = "FO/8" -> [deck |-> "STANDARD", types |-> <<"Omaha", "Omaha8">>, structure |-> "Fixed-limit", streets |-> Flop(4, sb, bb, FLCap)]
    [] v = "F7S" -> [deck |-> "STANDARD", types |-> <<"StandardHigh">>, structure |-> "Fixed-limit", streets |-> Stud(FALSE, sb, bb)]
    [] v = "F7S/8" -> [deck |-> "STANDARD", types |-> <<"StandardHigh", "EightOrBetter">>, structure |-> "Fixed-limit",
                       streets |-> Stud(FALSE, sb, bb)]
    [] v = "FR" -> [deck |-> "REGULAR", types |-> <<"Regular">>, structure |-> "Fixed-limit", streets |-> Stud(TRUE, sb, bb)]
    [] v = "N2L1D" -> [deck |-> "STANDARD", types |-> <<"StandardLow">>, structure |-> "No-limit", streets |-> Draw(5, 1, bb, bb, NoCap)]
    [] v = "F2L3D" -> [deck |-> "STANDARD", types |-> <<"StandardLow">>, structure |-> "Fixed-limit", streets |-> Draw(5, 3, sb, bb, FLCap)]
    [] v = "FB" -> [deck |-> "REGULAR", types |-> <<"Badugi">>, structure |-> "Fixed-limit", streets |-> Draw(4, 3, sb, bb, FLCap)]

Names == {"FT", "NT", "NR", "NS", "PO", "FO/8", "F7S", "F7S/8", "FR", "N2L1D", "F2L3D", "FB"}
\* the hand-history variant codes (royal hold'em has none: a hand of it cannot be filed under any code)
Codes == Names \ {"NR"}

\* the cards of the named decks (module Hands: rank index * 4 + suit)
DeckCards(d) ==
  CASE d \in {"STANDARD", "REGULAR"} -> 0..51
    [] d = "SHORT_DECK_HOLDEM" -> 16..51          \* six and up
    [] d = "ROYAL_POKER" -> 32..51                \* ten and up
    [] d = "KUHN_POKER" -> {39, 43, 47}           \* Js Qs Ks
=============================================================================
