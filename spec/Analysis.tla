------------------------------ MODULE Analysis ------------------------------
(* range notation, pot shares, ICM - filled in by the C18 check *)
EXTENDS Hands, TLC
AnalysisKinds == {}
AnalysisOK(k, it) == TRUE
=============================================================================
