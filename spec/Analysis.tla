------------------------------ MODULE Analysis ------------------------------
(***************************************************************************)
(* C18: what range notation denotes, what an equity is (a share of one pot *)
(* split like the engine splits it), and the independent chip model - as   *)
(* exact mathematics.  Cards are integers as in Hands.tla; ranks 0..12 in  *)
(* deuce..ace order; a two-card hand is a set of two cards.                *)
(***************************************************************************)
EXTENDS Hands, TLC

Suits == 0..3
Card(r, s) == r * 4 + s

(***************************************************************************)
(* Ranges.  mode "" (both), "s" (suited), "o" (offsuit).                   *)
(***************************************************************************)
Suited(r0, r1) == IF r0 = r1 THEN {} ELSE {{Card(r0, s), Card(r1, s)} : s \in Suits}
Offsuit(r0, r1) == {{Card(r0, s), Card(r1, u)} : <<s, u>> \in {x \in Suits \X Suits : x[1] # x[2]}}
Combos(r0, r1, mode) ==
  IF r0 = r1 THEN (IF mode = "s" THEN {} ELSE Offsuit(r0, r0))       \* a pair: the six ways to pick two suits
  ELSE CASE mode = "s" -> Suited(r0, r1)
         [] mode = "o" -> Offsuit(r0, r1)
         [] OTHER -> Suited(r0, r1) \cup Offsuit(r0, r1)
\* "XY+": pairs - this pair and every higher one; otherwise the higher card kept, the kicker raised up to just below it
Plus(r0, r1, mode) ==
  IF r0 = r1 THEN UNION {Combos(r, r, mode) : r \in r0..12}
  ELSE LET hi == IF r0 > r1 THEN r0 ELSE r1
           lo == IF r0 > r1 THEN r1 ELSE r0
       IN UNION {Combos(hi, r, mode) : r \in lo..(hi - 1)}
\* "AB-CD": both cards shifted together from one end to the other; the two ends must be shifts of each other
DashValid(r0, r1, r2, r3) == r1 - r0 = r3 - r2
Dash(r0, r1, r2, r3, mode) ==
  LET a == IF r0 <= r2 THEN r0 ELSE r2
      b == IF r0 <= r2 THEN r1 ELSE r3
      n == IF r0 <= r2 THEN r2 - r0 ELSE r0 - r2
  IN UNION {Combos(a + k, b + k, mode) : k \in 0..n}

RangeOf(f) ==
  CASE f.form = "plain" -> Combos(f.r0, f.r1, f.mode)
    [] f.form = "plus" -> Plus(f.r0, f.r1, f.mode)
    [] f.form = "dash" -> Dash(f.r0, f.r1, f.r2, f.r3, f.mode)
    [] f.form = "cards" -> {{f.r0, f.r1}}           \* two explicit cards (given as card numbers)
FormValid(f) == f.form = "dash" => DashValid(f.r0, f.r1, f.r2, f.r3)

AsSets(pairs) == {ToSetS(pairs[j]) : j \in DOMAIN pairs}
WellFormed(pairs) == \A j \in DOMAIN pairs : Len(pairs[j]) = 2 /\ pairs[j][1] # pairs[j][2] /\ pairs[j][1] \in 0..51 /\ pairs[j][2] \in 0..51

\* the identities the notation promises (evaluated on the specification's own sets for the ranks of every case)
RangeIdentities(r0, r1) ==
  /\ Cardinality(Combos(r0, r0, "")) = 6
  /\ r0 # r1 => /\ Cardinality(Combos(r0, r1, "s")) = 4
                /\ Cardinality(Combos(r0, r1, "o")) = 12
                /\ Combos(r0, r1, "") = Combos(r0, r1, "s") \cup Combos(r0, r1, "o")
                /\ Combos(r0, r1, "s") \cap Combos(r0, r1, "o") = {}
                /\ Combos(r0, r1, "") = Combos(r1, r0, "")

(***************************************************************************)
(* Exact rationals <<num, den>>, den > 0, reduced.                         *)
(***************************************************************************)
RECURSIVE GCD(_, _)
GCD(a, b) == IF b = 0 THEN a ELSE GCD(b, a % b)
AbsI(x) == IF x < 0 THEN 0 - x ELSE x
Norm(q) == LET g == GCD(AbsI(q[1]), q[2]) IN IF q[1] = 0 THEN <<0, 1>> ELSE <<q[1] \div g, q[2] \div g>>
QAdd(p, q) == Norm(<<p[1] * q[2] + q[1] * p[2], p[2] * q[2]>>)
QMul(p, q) == Norm(<<p[1] * q[1], p[2] * q[2]>>)
QLeq(p, q) == p[1] * q[2] <= q[1] * p[2]
RECURSIVE QSum(_)
QSum(s) == IF s = <<>> THEN <<0, 1>> ELSE QAdd(Head(s), QSum(Tail(s)))

(***************************************************************************)
(* Equities: the share of one pot each player gets when all cards are      *)
(* known.  The pot is divided evenly over the hand types that somebody     *)
(* qualifies for (as the engine does: a split-pot game without a low pays  *)
(* everything to the high), each part evenly among its best hands.         *)
(***************************************************************************)
Shares(types, holes, board) ==
  LET N == DOMAIN holes
      str(t, i) == BestStrength(types[t], holes[i], board)
      best(t) == Max({str(t, i) : i \in N})
      play == {t \in DOMAIN types : best(t) # NoHand}
      wins(t) == {i \in N : str(t, i) = best(t)}
  IN [i \in N |-> IF play = {} THEN <<0, 1>>
                  ELSE QSum([t \in DOMAIN types |-> IF t \in play /\ i \in wins(t) THEN <<1, Cardinality(play) * Cardinality(wins(t))>> ELSE <<0, 1>>])]

(***************************************************************************)
(* ICM: finishing orders are drawn without replacement with probability    *)
(* proportional to chips; a player's value is his expected payout.         *)
(***************************************************************************)
RECURSIVE OrderProb(_, _, _)
\* probability that the players of `order` (a sequence of distinct players) take the first places in this order
OrderProb(chips, order, rest) ==
  IF order = <<>> THEN <<1, 1>>
  ELSE QMul(<<chips[Head(order)], rest>>, OrderProb(chips, Tail(order), rest - chips[Head(order)]))
RECURSIVE Orders(_, _)
Orders(S, k) == IF k = 0 THEN {<<>>} ELSE UNION {{<<x>> \o o : o \in Orders(S \ {x}, k - 1)} : x \in S}
SumChips(chips) == LET RECURSIVE F(_) F(j) == IF j = 0 THEN 0 ELSE chips[j] + F(j - 1) IN F(Len(chips))
ICM(payouts, chips) ==
  LET N == DOMAIN chips
      k == IF Len(payouts) < Len(chips) THEN Len(payouts) ELSE Len(chips)
      total == SumChips(chips)
      os == SetToSeq(Orders(N, k))
  IN [i \in N |-> QSum([x \in DOMAIN os |->
                          LET o == os[x]
                              pos == {j \in 1..k : o[j] = i}
                          IN IF pos = {} THEN <<0, 1>>
                             ELSE QMul(<<payouts[CHOOSE j \in pos : TRUE], 1>>, OrderProb(chips, o, total))])]

AnalysisKinds == {"range", "rangelist", "equity", "icm", "icmprop", "strength", "equityany", "stats"}

ARep(k, it, what) == PrintT(<<"MISMATCH", k, it.kind, what, it>>)

RangeItemOK(k, it) ==
  /\ RangeIdentities(it.f.r0 % 13, it.f.r1 % 13) \/ ARep(k, it, "the specification's own identities fail")
  /\ IF ~FormValid(it.f) THEN it.raised \/ ARep(k, it, "an invalid form was accepted")
     ELSE /\ ~it.raised \/ ARep(k, it, "a valid form was refused")
          /\ it.raised \/ (WellFormed(it.got) \/ ARep(k, it, "an element is not a set of two distinct real cards"))
          /\ it.raised \/ (AsSets(it.got) = RangeOf(it.f) \/ ARep(k, it, <<"missing", RangeOf(it.f) \ AsSets(it.got), "extra", AsSets(it.got) \ RangeOf(it.f)>>))

ListItemOK(k, it) ==
  LET want == UNION {RangeOf(it.fs[j]) : j \in DOMAIN it.fs} IN
  /\ \A j \in DOMAIN it.gots :          \* every spelling (separator style) of the same list
        /\ WellFormed(it.gots[j]) \/ ARep(k, it, <<"spelling", j, "an element is not a set of two distinct real cards">>)
        /\ AsSets(it.gots[j]) = want \/ ARep(k, it, <<"spelling", j, "missing", want \ AsSets(it.gots[j]), "extra", AsSets(it.gots[j]) \ want>>)

EquityItemOK(k, it) ==
  LET sh == Shares(it.types, it.holes, it.board)
      N == DOMAIN it.holes
      pot == it.pot
  IN /\ \A i \in N : QLeq(<<0, 1>>, sh[i])
     /\ (\E i \in N : sh[i][1] # 0) => QSum([i \in N |-> sh[i]]) = <<1, 1>>
     /\ \A x \in DOMAIN it.runs :        \* calculate_equities with different sample counts: same, exact answer
           \A i \in N : Norm(<<it.runs[x][i][1], it.runs[x][i][2]>>) = sh[i]
                          \/ ARep(k, it, <<"run", x, "player", i, "spec", sh[i], "code", it.runs[x][i]>>)
     /\ it.engine # <<>> =>             \* what the engine itself paid out of a pot of `pot` chips
           \A i \in N : it.engine[i] * sh[i][2] = sh[i][1] * pot
                          \/ ARep(k, it, <<"engine paid", it.engine, "of", pot, "spec share of player", i, sh[i]>>)

IcmItemOK(k, it) ==
  LET v == ICM(it.payouts, it.chips)
      N == DOMAIN it.chips
      kk == IF Len(it.payouts) < Len(it.chips) THEN Len(it.payouts) ELSE Len(it.chips)
      pool == LET RECURSIVE F(_) F(j) == IF j = 0 THEN 0 ELSE it.payouts[j] + F(j - 1) IN F(kk)
  IN /\ \A i \in N : QLeq(<<0, 1>>, v[i]) \/ ARep(k, it, "spec: negative value")
     /\ QSum([i \in N |-> v[i]]) = <<pool, 1>> \/ ARep(k, it, <<"spec: values do not add up to the prize pool", v>>)
     /\ (\A i, j \in N : (it.chips[i] <= it.chips[j] /\ it.sorted) => QLeq(v[i], v[j])) \/ ARep(k, it, <<"spec: not monotone", v>>)
     /\ \A i \in N : Norm(<<it.got[i][1], it.got[i][2]>>) = v[i] \/ ARep(k, it, <<"player", i, "spec", v[i], "code", it.got[i]>>)

\* what the property says of the values alone (stack ratios beyond the exact model's integer range); values in millionths,
\* one unit of slack per player for the rounding of the projection
IcmPropOK(k, it) ==
  LET N == DOMAIN it.chips
      kk == IF Len(it.payouts) < Len(it.chips) THEN Len(it.payouts) ELSE Len(it.chips)
      pool == LET RECURSIVE F(_) F(j) == IF j = 0 THEN 0 ELSE it.payouts[j] + F(j - 1) IN F(kk)
      sum == LET RECURSIVE G(_) G(j) == IF j = 0 THEN 0 ELSE it.micro[j] + G(j - 1) IN G(Len(it.micro))
      slack == Len(it.chips)
  IN /\ (\A i \in N : it.micro[i] >= 0) \/ ARep(k, it, "negative value")
     /\ (sum - pool * 1000000 <= slack /\ pool * 1000000 - sum <= slack) \/ ARep(k, it, <<"values add up to", sum, "millionths; the prize pool is", pool>>)
     /\ (\A i, j \in N : (it.chips[i] <= it.chips[j] /\ it.sorted) => it.micro[i] <= it.micro[j] + 1) \/ ARep(k, it, "values not ordered as the chips")
     /\ (\A i, j \in N : it.chips[i] = it.chips[j] => (it.micro[i] - it.micro[j]) \in -1..1) \/ ARep(k, it, "equal stacks, different values")

\* hand strength: the player's share against n - 1 opponents whose hole cards are drawn uniformly from `rest`
OppDeals(rest, k, m) ==      \* sequences of m disjoint k-card hands (as sequences of cards)
  LET RECURSIVE F(_, _)
      F(S, j) == IF j = 0 THEN {<<>>} ELSE UNION {{<<SetToSeq(h)>> \o d : d \in F(S \ h, j - 1)} : h \in kSubset(k, S)}
  IN F(rest, m)
StrengthExact(types, hole, board, rest, n) ==
  LET ds == SetToSeq(OppDeals(rest, Len(hole), n - 1))
  IN QMul(QSum([x \in DOMAIN ds |-> Shares(types, ds[x] \o <<hole>>, board)[n]]), <<1, Len(ds)>>)
StrengthItemOK(k, it) ==
  LET e == StrengthExact(it.types, it.hole, it.board, {it.rest[j] : j \in DOMAIN it.rest}, it.n)
      d == it.micro * e[2] - e[1] * 1000000
  IN /\ (it.micro >= 0 /\ it.micro <= 1000000) \/ ARep(k, it, "not a probability")
     /\ (d <= it.tol * e[2] /\ 0 - d <= it.tol * e[2]) \/ ARep(k, it, <<"exact expectation", e, "code (millionths)", it.micro>>)
     /\ (e[1] = 0 => it.micro = 0) \/ ARep(k, it, "a hand that never wins has strength > 0")
     /\ (e = <<1, 1>> => it.micro >= 999999) \/ ARep(k, it, "a hand that always wins alone has strength < 1")
\* any deal, however much of it was sampled: the values are shares of one pot (a high hand type is always among the types)
EquityAnyOK(k, it) ==
  LET sum == LET RECURSIVE G(_) G(j) == IF j = 0 THEN 0 ELSE it.micro[j] + G(j - 1) IN G(Len(it.micro)) IN
  /\ (\A i \in DOMAIN it.micro : it.micro[i] >= 0) \/ ARep(k, it, "negative equity")
  /\ Len(it.micro) = Len(it.holes) \/ ARep(k, it, "one value per player")
  /\ (sum - 1000000 \in (0 - Len(it.micro))..Len(it.micro)) \/ ARep(k, it, <<"equities add up to", sum, "millionths">>)

(***************************************************************************)
(* Player statistics (analysis.Statistics).  A session is a sequence of    *)
(* hands, each with the name sitting in every seat (0 = nobody), the       *)
(* starting and the finishing stacks.  A player's payoffs are, in the      *)
(* order of the hands, what each of his seats finished with minus what it  *)
(* started with; the sample count is their number, the sum their sum, the  *)
(* mean the sum over the count; merging statistics concatenates samples.   *)
(***************************************************************************)
StatsPayoffs(hands, nm) ==
  FlattenSeq([h \in 1..Len(hands) |->
     LET H == hands[h]
         seats == SelectSeq([i \in 1..Len(H.names) |-> i], LAMBDA i : H.names[i] = nm)
     IN [x \in 1..Len(seats) |-> H.fin[seats[x]] - H.start[seats[x]]]])

StatsNames(hands) == UNION {{hands[h].names[i] : i \in 1..Len(hands[h].names)} : h \in 1..Len(hands)} \ {0}

StatsItemOK(k, it) ==
  LET names == StatsNames(it.hands)
      got == it.got
      G(nm) == got[CHOOSE x \in DOMAIN got : got[x].name = nm]
      Abs(x) == IF x < 0 THEN 0 - x ELSE x
  IN /\ ({got[x].name : x \in DOMAIN got} = names /\ Len(got) = Cardinality(names))
          \/ ARep(k, it, <<"statistics are reported for", {got[x].name : x \in DOMAIN got}, "the players of the session are", names>>)
     /\ \A nm \in names \cap {got[x].name : x \in DOMAIN got} :
          LET want == StatsPayoffs(it.hands, nm) g == G(nm) IN
          /\ g.payoffs = want \/ ARep(k, it, <<"player", nm, "payoffs", g.payoffs, "the hands say", want>>)
          /\ g.count = Len(want) \/ ARep(k, it, <<"player", nm, "sample count", g.count, "hands played", Len(want)>>)
          /\ g.sum = SumChips(want) \/ ARep(k, it, <<"player", nm, "payoff sum", g.sum, "the hands say", SumChips(want)>>)
          /\ Abs(g.meanmilli * Len(want) - 1000 * SumChips(want)) <= Len(want)
                \/ ARep(k, it, <<"player", nm, "mean (thousandths)", g.meanmilli, "sum", SumChips(want), "count", Len(want)>>)
     /\ \A x \in DOMAIN it.merged :      \* statistics of the two halves of the session, merged: the whole session
          it.merged[x].payoffs = StatsPayoffs(it.hands, it.merged[x].name)
            \/ ARep(k, it, <<"merged halves, player", it.merged[x].name, it.merged[x].payoffs, "whole session", StatsPayoffs(it.hands, it.merged[x].name)>>)
     /\ (it.closed => SumChips([x \in DOMAIN got |-> got[x].sum]) = 0 - it.rake)     \* everybody named: the payoffs add up to minus the rake
            \/ ARep(k, it, <<"all seats are named and the payoff sums add up to", SumChips([x \in DOMAIN got |-> got[x].sum]), "rake", it.rake>>)

AnalysisOK(k, it) ==
  CASE it.kind = "range" -> RangeItemOK(k, it)
    [] it.kind = "rangelist" -> ListItemOK(k, it)
    [] it.kind = "equity" -> EquityItemOK(k, it)
    [] it.kind = "icm" -> IcmItemOK(k, it)
    [] it.kind = "icmprop" -> IcmPropOK(k, it)
    [] it.kind = "strength" -> StrengthItemOK(k, it)
    [] it.kind = "equityany" -> EquityAnyOK(k, it)
    [] it.kind = "stats" -> StatsItemOK(k, it)
=============================================================================
