------------------------------ MODULE TraceCopy ------------------------------
(***************************************************************************)
(* C15 (copies): a hand is played on the real code up to step copyAt, the  *)
(* State is deep-copied, and original (A) and copy (B) are then operated   *)
(* on in an interleaved way.  Two-instance specification:                  *)
(*     StepA ==  SA' = Apply(SA, op, args)  /\  UNCHANGED SB               *)
(*     StepB ==  SB' = Apply(SB, op, args)  /\  UNCHANGED SA               *)
(* Each recorded event names the instance it was applied to and carries    *)
(* what the OTHER instance looked like afterwards (projection + digest     *)
(* over all fields): TLC validates the acting side like TraceHands and     *)
(* requires the other side unchanged.  An event flagged `mirror` repeats   *)
(* on B the operation just applied to A from equal states: equal results.  *)
(***************************************************************************)
EXTENDS TraceOps

Hands == ndJsonDeserialize(IOEnv.TRACE)

VARIABLES tid, l, SA, SB
vars == <<tid, l, SA, SB>>

NoLog(St) == [f \in (DOMAIN St) \ {"log", "pots", "total"} |-> St[f]]

Init ==
  /\ tid \in DOMAIN Hands
  /\ l = 0
  /\ Force(CreateOK(tid, Hands[tid]))
  /\ SA = IF Hands[tid].create.out = "ok" THEN Hands[tid].create.post ELSE [fault |-> "create"]
  /\ SB = [fault |-> "not copied yet"]

OtherOK(t, k, ev, other) ==
  /\ ev.osame \/ Report(t, k, "copy-digest-changed", ev.op, {}, {}, <<ev.inst, ev.a>>)
  /\ NoLog(ev.other) = NoLog(other)
        \/ Report(t, k, "copy-other-changed", ev.op, DiffFields(NoLog(ev.other), NoLog(other)), {}, <<ev.inst, ev.a, Diff(NoLog(other), NoLog(ev.other))>>)

Next ==
  /\ SA.fault = ""
  /\ l < Len(Hands[tid].steps)
  /\ LET H == Hands[tid]
         ev == H.steps[l + 1]
     IN IF l + 1 <= H.copyAt
        THEN /\ Force(StepOK(tid, l + 1, CfgOf(H), SA, ev, <<>>, FALSE))
             /\ SA' = NextState(SA, ev)
             /\ SB' = IF l + 1 = H.copyAt THEN NextState(SA, ev) ELSE SB      \* B := deepcopy(A)
        ELSE IF ev.inst = "A"
        THEN /\ Force(StepOK(tid, l + 1, CfgOf(H), SA, ev, <<>>, FALSE))
             /\ Force(OtherOK(tid, l + 1, ev, SB))
             /\ SA' = NextState(SA, ev)
             /\ SB' = SB
        ELSE /\ Force(StepOK(tid, l + 1, CfgOf(H), SB, ev, <<>>, FALSE))
             /\ Force(OtherOK(tid, l + 1, ev, SA))
             /\ Force(~ev.mirror \/ ev.out # "ok" \/ NoLog(ev.post) = NoLog(SA)
                        \/ Report(tid, l + 1, "copy-diverged", ev.op, DiffFields(NoLog(ev.post), NoLog(SA)), {}, <<ev.a>>))
             /\ SB' = NextState(SB, ev)
             /\ SA' = SA
  /\ l' = l + 1
  /\ UNCHANGED tid

Finished == IF l = Len(Hands[tid].steps) \/ SA.fault # "" THEN PrintT(<<"DONE", tid, l>>) ELSE TRUE
Spec == Init /\ [][Next]_vars
=============================================================================
