------------------------------- MODULE Rules -------------------------------
(***************************************************************************)
(* The declarative layer: what the rules of poker and the documentation    *)
(* say must be true of a state, of a step, or of the history of a hand -   *)
(* stated independently of the bookkeeping of the operational model        *)
(* (PokerKit.tla) and of the implementation.  Every rule has a name.  The  *)
(* MC_* instances check each rule on every reachable state of the model;   *)
(* the trace specifications evaluate them on every observed state of the   *)
(* real code and report the names of the broken ones.                      *)
(*                                                                         *)
(*   St    an abstract state of PokerKit.tla; observed states also carry   *)
(*         the implementation's own pots report St.pots                    *)
(*   full  the operation log of the hand so far (records k, p, amt, ...)   *)
(***************************************************************************)
EXTENDS PokerKit

SetOfSeq(s) == {s[i] : i \in DOMAIN s}
AllCards(St) == St.deck \o Flat(St.board) \o Flat(St.hole) \o St.burn \o St.muck \o Flat(St.disc)
NoDup(s) == \A i, j \in DOMAIN s : i # j => s[i] # s[j]
LiveSet(St) == {i \in DOMAIN St.alive : St.alive[i]}
CountT(s) == Cardinality({k \in DOMAIN s : s[k]})
LastIdx(s, P(_)) == Max({0} \cup {j \in DOMAIN s : P(s[j])})

(***************************************************************************)
(* C01: chips                                                              *)
(***************************************************************************)
PotChips(pots) == SumS([k \in DOMAIN pots |-> pots[k].raked + pots[k].unraked])
ChipsConserved(C, stacks, bets, pots) == SumS(stacks) + SumS(bets) + PotChips(pots) = SumS(C.stacks0)
ChipsNonNeg(stacks, bets, pots) ==
  /\ \A i \in DOMAIN stacks : stacks[i] >= 0 /\ bets[i] >= 0
  /\ \A k \in DOMAIN pots : pots[k].raked >= 0 /\ pots[k].unraked >= 0
PayoffIdentity(C, stacks, payoffs) == \A i \in DOMAIN stacks : payoffs[i] = stacks[i] - C.stacks0[i]
TerminalNothingLeft(C, St, pots) ==
  ~St.status => /\ \A i \in DOMAIN St.bets : St.bets[i] = 0
                /\ \A k \in DOMAIN pots : pots[k].unraked = 0
                /\ SumS(St.payoffs) = 0 - SumS([k \in DOMAIN pots |-> pots[k].raked])

(***************************************************************************)
(* C06: cards                                                              *)
(***************************************************************************)
CardsPartition(C, St) ==
  LET known == KnownOnly(AllCards(St)) IN NoDup(known) /\ SetOfSeq(known) = SetOfSeq(C.deckcards)

(***************************************************************************)
(* C07: phases.  While the hand is on exactly one phase has work pending   *)
(* and its default operation is available; when it is over none has.       *)
(***************************************************************************)
Phases(St) ==
  (IF AnyT(St.antePend) THEN {"ante"} ELSE {}) \cup (IF St.collPend THEN {"collect"} ELSE {})
  \cup (IF AnyT(St.blindPend) THEN {"blind"} ELSE {}) \cup (IF DealingPending(St) THEN {"dealing"} ELSE {})
  \cup (IF St.actors # <<>> THEN {"betting"} ELSE {})
  \cup (IF St.street # 0 /\ (AnyT(St.selPend) \/ St.showq # <<>>) THEN {"showdown"} ELSE {})
  \cup (IF AnyT(St.killPend) THEN {"killing"} ELSE {}) \cup (IF St.subpots # <<>> THEN {"pushing"} ELSE {})
  \cup (IF AnyT(St.pullPend) THEN {"pulling"} ELSE {})
OnePhase(St) == IF St.status THEN Cardinality(Phases(St)) = 1 ELSE Phases(St) = {}
PhaseOps(ph) ==
  CASE ph = "ante" -> {"post_ante"} [] ph = "collect" -> {"collect_bets"} [] ph = "blind" -> {"post_blind_or_straddle"}
    [] ph = "dealing" -> {"stand_pat_or_discard", "burn_card", "deal_hole", "deal_board"}
    [] ph = "betting" -> {"check_or_call", "post_bring_in"}
    [] ph = "showdown" -> {"select_runout_count", "show_or_muck_hole_cards"}
    [] ph = "killing" -> {"kill_hand"} [] ph = "pushing" -> {"push_chips"} [] ph = "pulling" -> {"pull_chips"}
\* a hand with unknown cards at a showdown cannot be tabled as it is: outside the quantifier of C07 ("hands reaching a showdown are known")
UnknownAtShowdown(St) == St.showq # <<>> /\ AnyUnknown(St.hole[Head(St.showq)])
SomethingToDo(C, St) ==
  (St.status /\ Cardinality(Phases(St)) = 1 /\ ~UnknownAtShowdown(St))
     => \E ph \in Phases(St) : \E op \in PhaseOps(ph) : Guard([C EXCEPT !.werr = FALSE], St, op, NoArgs)

PhaseOfKind(k) ==
  CASE k = "AP" -> "ante" [] k = "BC" -> "collect" [] k = "BP" -> "blind" [] k \in {"CB", "HD", "BD", "SD"} -> "dealing"
    [] k \in {"F", "CC", "BI", "CBR"} -> "betting" [] k \in {"RS", "SM"} -> "showdown" [] k = "HK" -> "killing"
    [] k = "PUSH" -> "pushing" [] k = "PULL" -> "pulling" [] OTHER -> "none"
\* the documented order of phases: which phase may follow which (a phase with nothing to do is passed over)
MayFollow(a, b) ==
  CASE a = "start" -> b \in {"ante", "blind", "dealing"}
    [] a = "ante" -> b \in {"ante", "collect"}
    [] a = "collect" -> b \in {"blind", "dealing", "showdown", "killing", "pushing", "pulling"}
    [] a = "blind" -> b \in {"blind", "dealing"}
    [] a = "dealing" -> b \in {"dealing", "betting", "collect", "showdown", "killing", "pushing", "pulling"}
    [] a = "betting" -> b \in {"betting", "collect", "dealing", "showdown", "killing", "pushing", "pulling"}
    [] a = "showdown" -> b \in {"showdown", "dealing", "killing", "pushing", "pulling"}
    [] a = "killing" -> b \in {"killing", "pushing", "pulling"}
    [] a = "pushing" -> b \in {"pushing", "pulling"}
    [] a = "pulling" -> b = "pulling"
\* the kinds of the operations of a log, no-operations and (see TraceOps) non-standard shows left out
PhaseSeq(log) == LET ks == SelectSeq([j \in DOMAIN log |-> PhaseOfKind(log[j].k)], LAMBDA x : x # "none") IN ks
OrderOK(before, appended) ==
  LET b == PhaseSeq(before)
      a == PhaseSeq(appended)
      s == (IF b = <<>> THEN <<"start">> ELSE <<b[Len(b)]>>) \o a
  IN \A j \in 1..(Len(s) - 1) : MayFollow(s[j], s[j + 1])

\* a bound on the number of operations of a hand (no-operations and non-standard shows not counted): every hand ends
OpsBound(C, runouts) ==
  LET n == C.n
      chipsTotal == SumS(C.stacks0)
      perStreet == 1 + n * 8 + 8 * C.boards0 * runouts + n + n * (chipsTotal + 2) + 1 + 2 * n
  IN 2 * n + 1 + NStreets(C) * runouts * perStreet + n + runouts * n * C.boards0 * 2 * n + n

(***************************************************************************)
(* Committed chips from the log alone: what every player has irrevocably   *)
(* put in (uncalled parts returned at collection taken off again).         *)
(***************************************************************************)
\* com: what a player has irrevocably put in (the part of a bet that nobody called is taken off again when bets are
\* collected); col: what of it was collected into the pots (a lone survivor's last bet stays in front of him and is pulled
\* back, matched part included)
SecondLargest(bet) == LET s == SortSeq([i \in DOMAIN bet |-> bet[i]], <) IN IF Len(s) < 2 THEN 0 ELSE s[Len(s) - 1]
RECURSIVE ComWalk(_, _, _, _, _)
ComWalk(log, j, com, col, bet) ==
  IF j > Len(log) THEN [com |-> com, col |-> col, bet |-> bet]
  ELSE LET r == log[j] IN
       CASE r.k \in {"AP", "BP", "CC", "BI"} -> ComWalk(log, j + 1, [com EXCEPT ![r.p] = @ + r.amt], col, [bet EXCEPT ![r.p] = @ + r.amt])
         [] r.k = "CBR" -> ComWalk(log, j + 1, [com EXCEPT ![r.p] = @ + (r.amt - bet[r.p])], col, [bet EXCEPT ![r.p] = r.amt])
         [] r.k = "BC" ->
              LET cut == SecondLargest(bet)
                  back(i) == IF r.amts[i] = 0 /\ bet[i] > 0 THEN MaxI(0, bet[i] - cut) ELSE bet[i] - r.amts[i]
              IN ComWalk(log, j + 1, [i \in DOMAIN com |-> com[i] - back(i)], [i \in DOMAIN col |-> col[i] + r.amts[i]], [i \in DOMAIN bet |-> 0])
         [] OTHER -> ComWalk(log, j + 1, com, col, bet)
Committed(C, log) == ComWalk(log, 1, [i \in Pl(C) |-> 0], [i \in Pl(C) |-> 0], [i \in Pl(C) |-> 0])

(***************************************************************************)
(* C02: who gets what.  Stated by eligibility set, not by the level loop:  *)
(* the chip lying at height l of a player's column of committed chips      *)
(* belongs to the pot whose eligible players are the live players who      *)
(* committed at least l.  Antes that are not trimmed are dead money of the *)
(* lowest layer.  Each pot is raked once, divided evenly over the boards   *)
(* (odd chips to the first), each board's part evenly over the hand types  *)
(* for which an eligible player has a hand (odd chips to the first), each  *)
(* of those among the best hands (odd chips to the earliest position).     *)
(***************************************************************************)
\* (TLC evaluates LET definitions and operator arguments lazily, and may evaluate them again at every use; a value that is
\* used many times is therefore bound once by a quantifier over a singleton set: Bind(e, Op) = Op(e) with e evaluated once)
Bind(e, F(_)) == CHOOSE y \in {F(c) : c \in {e}} : TRUE
EligPotsOf(C, St, col) ==
  LET N == Pl(C)
      lone == Cardinality(LiveSet(St)) = 1
      pooled == IF C.trim THEN 0 ELSE SumS([i \in N |-> EffAnte(C, i)])
      \* antes that are not trimmed are dead money of the lowest layer: of the players who reach the lowest column height
      lowE == IF lone THEN LiveSet(St) ELSE {j \in N : St.alive[j] /\ col[j] >= Min({col[i] : i \in N})}
      \* all chips lying between two consecutive column heights have the same owners-to-be: those who reach the upper one
      Body(lv) ==
        LET E(k) == IF lone THEN LiveSet(St) ELSE {j \in N : St.alive[j] /\ col[j] >= lv[k]}
            Slab(k) == (lv[k] - (IF k = 1 THEN 0 ELSE lv[k - 1])) * Cardinality({i \in N : col[i] >= lv[k]})
            Sets == {E(k) : k \in DOMAIN lv} \cup (IF pooled > 0 THEN {lowE} ELSE {})
            Amt(X) == SumS([k \in DOMAIN lv |-> IF E(k) = X THEN Slab(k) ELSE 0]) + (IF X = lowE THEN pooled ELSE 0)
        IN {[players |-> X, amount |-> Amt(X)] : X \in {Y \in Sets : Amt(Y) > 0}}
  IN Bind(SetToSortSeq({col[i] : i \in N} \ {0}, <), Body)
EligPots(C, St, collected) ==
  LET sub(i) == IF C.trim THEN 0 ELSE EffAnte(C, i)
      Body(col) == EligPotsOf(C, St, col)
  IN Bind([i \in Pl(C) |-> collected[i] - sub(i)], Body)

Split(amount, k, j) == (amount \div k) + (IF j = 1 THEN amount % k ELSE 0)      \* the j-th of k even parts, odd chips to the first
\* (with fractional chip types there are no odd chips: amounts are in units in which every part is whole, so amount % k = 0)

\* what player i is awarded from a pot with eligible set X and unraked amount u
AwardFromPot(C, St, X, u, i) ==
  IF Cardinality(LiveSet(St)) = 1 THEN (IF i \in X THEN u ELSE 0)
  ELSE LET bc == BoardCount(C, St)
           perBoard(b) ==
             LET ub == Split(u, bc, b)
                 tys == SetToSortSeq({t \in DOMAIN C.types : \E x \in X : HandStr(C, St, x, b, t) # NoHand}, <)
                 perType(jt) ==
                   LET t == tys[jt]
                       ut == Split(ub, Len(tys), jt)
                       best == Max({HandStr(C, St, x, b, t) : x \in X})
                       win == SetToSortSeq({x \in X : HandStr(C, St, x, b, t) = best}, <)
                   IN IF \E w \in DOMAIN win : win[w] = i THEN Split(ut, Len(win), IndexOf(win, i)) ELSE 0
             IN SumS([jt \in DOMAIN tys |-> perType(jt)])
       IN SumS([b \in 1..bc |-> perBoard(b)])

PushedTo(C, log, i) == SumS([j \in DOMAIN log |-> IF log[j].k = "PUSH" THEN log[j].amts[i] ELSE 0])
AwardRule(C, St, full) ==
  LET Body(col) ==
        LET Body2(ps) ==
              LET un(k) == Rake(C, St, ps[k].amount)[2]
              IN \A i \in Pl(C) : PushedTo(C, full, i) = SumS([k \in DOMAIN ps |-> AwardFromPot(C, St, ps[k].players, un(k), i)])
        IN Bind(SetToSeq(EligPots(C, St, col)), Body2)
  IN Bind(Committed(C, full).col, Body)
AwardCorollaries(C, St, full) ==
  LET Body(com) ==
  /\ \A i \in Pl(C) : ~St.alive[i] => PushedTo(C, full, i) = 0                       \* folded, mucked, killed: nothing
  \* nobody wins more from an opponent than he put in (antes that are configured not to be trimmed are dead money by design)
  /\ (C.trim \/ \A j \in Pl(C) : EffAnte(C, j) = 0) => \A i \in Pl(C) : St.payoffs[i] <= SumS([j \in Pl(C) |-> IF j = i THEN 0 ELSE MinI(com[j], com[i])])
  /\ \A i \in Pl(C) : St.payoffs[i] >= 0 - com[i]
  IN Bind(Committed(C, full).com, Body)
\* applicable when the hand is over, somebody is still in, and every pot has an eligible live player with a tabled hand
AwardApplicable(C, St) == ~St.status /\ St.fault = "" /\ LiveSet(St) # {} /\ ~OrphanPot(C, St, St.fpots)

(***************************************************************************)
(* C03: betting, as a predicate over the history of the round.             *)
(*   r.b0    bets in front when the round started (the blinds)             *)
(*   r.q0    order of action at that moment (C13)                          *)
(*   r.hist  events of the round [k, p, to, left]: kind, player, his bet   *)
(*           in front after the event, his stack after it                  *)
(***************************************************************************)
MaxSeq(s) == Max(SetOfSeq(s) \cup {0})
MaxBefore(r, j) == MaxI(MaxSeq(r.b0), Max({r.hist[x].to : x \in 1..(j - 1)} \cup {0}))
IsRaise(r, j) == r.hist[j].k = "raise"
Inc(r, j) == r.hist[j].to - MaxBefore(r, j)
Raises(r) == {j \in DOMAIN r.hist : IsRaise(r, j)}
Largest(r, upto) == Max({Inc(r, j) : j \in {x \in Raises(r) : x <= upto}} \cup {0})
FullRaise(r, j) == IsRaise(r, j) /\ Inc(r, j) >= Largest(r, j - 1)
LastFull(r) == Max({j \in Raises(r) : FullRaise(r, j)} \cup {0})
ActedSinceFull(r) == {r.hist[j].p : j \in {x \in DOMAIN r.hist : x >= LastFull(r) /\ x >= 1}}
LastCoveredRaise(r) == Max({j \in Raises(r) : r.hist[j].left > 0} \cup {0})
ShortRun(r) == {j \in Raises(r) : j > LastCoveredRaise(r)}
ShortSum(r) == SumS([j \in 1..Len(r.hist) |-> IF j \in ShortRun(r) THEN Inc(r, j) ELSE 0])
LastRaise(r) == Max(Raises(r) \cup {0})
Clockwise(n, p) == [k \in 1..(n - 1) |-> ((p - 1 + k) % n) + 1]
CanStillAct(r, i) == r.alive[i] /\ r.stacks[i] > 0
ActedIn(r, i, from) == \E j \in DOMAIN r.hist : j > from /\ r.hist[j].p = i
Queue(r) ==
  IF LastRaise(r) = 0 THEN SelectSeq(r.q0, LAMBDA i : ~ActedIn(r, i, 0))
  ELSE SelectSeq(Clockwise(r.n, r.hist[LastRaise(r)].p), LAMBDA i : CanStillAct(r, i) /\ ~ActedIn(r, i, LastRaise(r)))
LiveCount(r) == Cardinality({i \in 1..r.n : r.alive[i]})
ActorR(r) == IF Queue(r) = <<>> \/ LiveCount(r) <= 1 THEN 0 ELSE Head(Queue(r))
BringInPending(r) == r.bringin > 0 /\ r.first /\ r.hist = <<>>
CompletionPending(r) == r.bringin > 0 /\ r.first /\ Raises(r) = {}
MaxBetR(r) == MaxSeq(r.bets)
CanFoldR(r) == LET a == ActorR(r) IN a # 0 /\ ~BringInPending(r) /\ (~r.tournament \/ r.bets[a] < MaxBetR(r))
CanCallR(r) == ActorR(r) # 0 /\ ~BringInPending(r)
CallAmtR(r) == LET a == ActorR(r) IN MinI(r.stacks[a], MaxBetR(r) - r.bets[a])
EffStackR(r, a) ==
  LET tot == SortSeq(SelectSeq([j \in 1..r.n |-> IF r.alive[j] THEN r.bets[j] + r.stacks[j] ELSE -1], LAMBDA x : x >= 0), <)
  IN MinI(r.stacks[a], MaxI(0, tot[Len(tot) - 1] - r.bets[a]))
RaiseAllowedR(r) ==
  LET a == ActorR(r) IN
  /\ a # 0
  /\ Cardinality(Raises(r)) # r.cap
  /\ ~(ShortRun(r) # {} /\ ShortSum(r) < Largest(r, Len(r.hist)) /\ a \in ActedSinceFull(r))
  /\ r.stacks[a] > MaxBetR(r) - r.bets[a]
  /\ \E j \in 1..r.n : j # a /\ r.alive[j] /\ r.stacks[j] + r.bets[j] > MaxBetR(r)
MinToR(r) == LET a == ActorR(r) IN
  MinI(EffStackR(r, a) + r.bets[a], MaxI(Largest(r, Len(r.hist)), r.smin) + (IF CompletionPending(r) THEN 0 ELSE MaxBetR(r)))
MaxToR(r) == LET a == ActorR(r)
                 all == r.stacks[a] + r.bets[a] IN
  CASE r.struct = "Fixed-limit" -> MinToR(r)
    [] r.struct = "No-limit" -> all
    [] r.struct = "Pot-limit" -> MinI(all, MaxI(MinToR(r), 2 * MaxBetR(r) - r.bets[a] + SumS(r.bets) + r.collected))
CanRaiseToR(r, x) == RaiseAllowedR(r) /\ x >= MinToR(r) /\ x <= MaxToR(r)

\* the round record of a state with a betting round in progress, from the log of the hand
RoundStart(full) == LastIdx(full, LAMBDA x : x.k \notin {"F", "CC", "BI", "CBR", "NOP"})
RECURSIVE HistWalk(_, _, _, _, _)
HistWalk(ev, j, bet, stack, acc) ==
  IF j > Len(ev) THEN acc
  ELSE LET r == ev[j]
           p == r.p
           to == CASE r.k = "F" -> bet[p] [] r.k \in {"CC", "BI"} -> bet[p] + r.amt [] r.k = "CBR" -> r.amt
           left == stack[p] - (to - bet[p])
           kind == CASE r.k = "F" -> "fold" [] r.k = "CC" -> "call" [] r.k = "BI" -> "bringin" [] r.k = "CBR" -> "raise"
       IN HistWalk(ev, j + 1, [bet EXCEPT ![p] = to], [stack EXCEPT ![p] = left], Append(acc, [k |-> kind, p |-> p, to |-> to, left |-> left]))
RoundRec(C, St, full) ==
  LET s == RoundStart(full)
      ev == SelectSeq(SubSeq(full, s + 1, Len(full)), LAMBDA x : x.k # "NOP")
      N == Pl(C)
      added(i) == SumS([j \in DOMAIN ev |-> IF ev[j].p = i /\ ev[j].k \in {"CC", "BI"} THEN ev[j].amt ELSE 0])
      \* what was in front of a player and behind him when the round started
      raisedTo(i) == LET js == {j \in DOMAIN ev : ev[j].p = i /\ ev[j].k = "CBR"} IN IF js = {} THEN -1 ELSE ev[Max(js)].amt
      b0 == [i \in N |-> IF St.street = 1 THEN SumS([j \in 1..s |-> IF full[j].k = "BP" /\ full[j].p = i THEN full[j].amt ELSE 0]) ELSE 0]
      stack0 == [i \in N |-> St.stacks[i] + (St.bets[i] - b0[i])]
      alive0 == [i \in N |-> St.alive[i] \/ \E j \in DOMAIN ev : ev[j].p = i /\ ev[j].k = "F"]
      S0 == [St EXCEPT !.stacks = stack0, !.bets = b0, !.alive = alive0, !.hole = [i \in N |-> IF alive0[i] /\ ~St.alive[i] THEN <<>> ELSE @[i]]]
  IN [n |-> C.n, b0 |-> b0, hist |-> HistWalk(ev, 1, b0, stack0, <<>>), stacks |-> St.stacks, bets |-> St.bets, alive |-> St.alive,
      smin |-> StreetOf(C, St).minbet, cap |-> StreetOf(C, St).maxcnt, struct |-> C.structure, tournament |-> C.tournament,
      bringin |-> C.bringin, first |-> St.street = 1, collected |-> PotTotal(PotsOf(C, St)),
      stack0 |-> stack0, alive0 |-> alive0]

\* the rule itself: who is to act and what he may do, compared with what the state says (q0 is C13's business: taken from
\* the state's own opening order at the start of the round, i.e. the first actor of the round followed clockwise)
BettingRuleHolds(C, St, full) ==
  St.actors # <<>> =>
    LET Check(r) ==
          /\ ActorR(r) = Head(St.actors)
          /\ CanFoldR(r) = (V_Fold(C, St, NoArgs) # "refuse")      \* cash games: a fold without a bet to face is allowed (warned about)
          /\ CanCallR(r) = (V_CheckCall(C, St, NoArgs) = "ok")
          /\ BringInPending(r) = (V_BringIn(C, St, NoArgs) = "ok")
          /\ (CanCallR(r) => CallAmtR(r) = CallAmount(St))
          /\ RaiseAllowedR(r) = RaiseGate(C, St)
          /\ (RaiseAllowedR(r) => MinToR(r) = MinTo(C, St) /\ MaxToR(r) = MaxTo(C, St))
        WithQ(r0) ==
          LET first == IF r0.hist = <<>> THEN Head(St.actors) ELSE r0.hist[1].p
              able0(i) == r0.alive0[i] /\ r0.stack0[i] > 0 /\
                          LET tot == SortSeq(SelectSeq([j \in 1..C.n |-> IF r0.alive0[j] THEN r0.b0[j] + r0.stack0[j] ELSE -1], LAMBDA x : x >= 0), <)
                          IN MinI(r0.stack0[i], MaxI(0, tot[Len(tot) - 1] - r0.b0[i])) > 0
          IN Bind(r0 @@ [q0 |-> SelectSeq(Rot(C.n, first), able0)], Check)
    IN Bind(RoundRec(C, St, full), WithQ)

(***************************************************************************)
(* C13: who opens a betting round.                                         *)
(***************************************************************************)
\* order in which forced blinds are posted: heads-up the small blind is the button (second seat) and the big blind the first
PostsBlind(C, i) == IF C.n = 2 THEN C.blinds[3 - i] ELSE C.blinds[i]
StandardBlinds(C) ==         \* positive blinds on a prefix of the seats, non-decreasing; late posts (negative) anywhere after
  LET pos == {i \in Pl(C) : C.blinds[i] > 0} IN
  /\ pos # {} /\ pos = 1..Cardinality(pos)
  /\ \A i, j \in pos : i < j => C.blinds[i] <= C.blinds[j]
DesignatedPosition(C, St) ==
  IF St.street = 1 /\ StandardBlinds(C)
  THEN LET posters == {i \in Pl(C) : PostsBlind(C, i) > 0}
           \* the last blind or straddle: the biggest; heads-up the big blind sits first
           big == Max({PostsBlind(C, i) : i \in posters})
           last == IF C.n = 2 THEN Min({i \in posters : PostsBlind(C, i) = big}) ELSE Max({i \in posters : PostsBlind(C, i) = big})
       IN (last % C.n) + 1
  ELSE 1                                                        \* first seat after the button
DesignatedStud(C, St) ==
  LET st == StreetOf(C, St)
      P == {i \in Pl(C) : St.alive[i] /\ UpCards(St, i) # <<>> /\ ~AnyUnknown(UpCards(St, i))}
      ups(i) == ToSetS(UpCards(St, i))
  IN IF P = {} \/ \E i \in P : Len(UpCards(St, i)) > 4 THEN 1
     ELSE CASE st.opening = "Low card" -> CHOOSE i \in P : \A j \in P : Min({CardKey("hi", c) : c \in ups(i)}) <= Min({CardKey("hi", c) : c \in ups(j)})
            [] st.opening = "High card" -> CHOOSE i \in P : \A j \in P : Max({CardKey("lo", c) : c \in ups(j)}) <= Max({CardKey("lo", c) : c \in ups(i)})
            [] st.opening = "High hand" -> Min({i \in P : \A j \in P : ExposedKey("hi", UpCards(St, i)) >= ExposedKey("hi", UpCards(St, j))})
            [] st.opening = "Low hand" -> Min({i \in P : \A j \in P : ExposedKey("lo", UpCards(St, i)) <= ExposedKey("lo", UpCards(St, j))})
\* applicable when a betting round has just begun; S0 is the state as the round began (stacks and bets before any action)
OpenerRuleHolds(C, St, full) ==
  (St.actors # <<>> /\ RoundStart(full) = Len(full)) =>
    LET st == StreetOf(C, St)
        des == IF st.opening = "Position" THEN DesignatedPosition(C, St) ELSE DesignatedStud(C, St)
        able(i) == St.alive[i] /\ St.stacks[i] > 0 /\ EffStack(C, St, i) > 0
        q == SelectSeq(Rot(C.n, des), able)
        applicable == /\ st.opening # "Position" \/ St.street > 1 \/ StandardBlinds(C)
                      /\ st.opening \in {"High hand", "Low hand"} => \A i \in Pl(C) : Len(UpCards(St, i)) <= 4
    IN applicable => (q # <<>> /\ Head(St.actors) = Head(q))

(***************************************************************************)
(* C10: dealing.                                                           *)
(***************************************************************************)
HoleDue(C, s) == SumS([k \in 1..s |-> Len(C.streets[k].hole)])
UpDue(C, s) == SumS([k \in 1..s |-> CountT(C.streets[k].hole)])
BoardDue(C, s) == SumS([k \in 1..s |-> C.streets[k].board])
\* when a betting round is on: everybody still in has exactly the cards the streets so far prescribe (a stud street that
\* the deck could not cover having gone to the board instead), face up as prescribed; folded players hold nothing
DealtAsPrescribed(C, St) ==
  (St.actors # <<>> /\ St.street # 0) =>
    LET s == St.street
        extra == Len(St.board) - BoardDue(C, s)          \* rows of shared cards dealt in place of hole cards
    IN /\ extra >= 0
       /\ \A i \in Pl(C) : IF St.alive[i] THEN /\ Len(St.hole[i]) + extra = HoleDue(C, s)
                                               /\ Len(St.up[i]) = Len(St.hole[i])
                                               /\ extra = 0 => CountT(St.up[i]) = UpDue(C, s)
                           ELSE St.hole[i] = <<>>
\* within the dealing of one street (the log since the last betting action or collection): a burn exactly when prescribed and
\* before any card of the street; every discard before the burn
StreetSegment(full) == LET s == LastIdx(full, LAMBDA x : x.k \in {"F", "CC", "BI", "CBR", "BC", "BP", "AP", "RS", "SM"}) IN SubSeq(full, s + 1, Len(full))
BurnDiscipline(C, St, full) ==
  (St.actors # <<>> /\ St.street # 0 /\ RoundStart(full) = Len(full)) =>
    LET seg == SelectSeq(StreetSegment(full), LAMBDA x : x.k \in {"CB", "HD", "BD", "SD"})
        burns == {j \in DOMAIN seg : seg[j].k = "CB"}
    IN /\ Cardinality(burns) = IF StreetOf(C, St).burn THEN 1 ELSE 0
       /\ \A j \in burns : \A x \in DOMAIN seg : (seg[x].k \in {"HD", "BD"} => j < x) /\ (seg[x].k = "SD" => x < j)

(***************************************************************************)
(* C14: run-outs.                                                          *)
(***************************************************************************)
RunoutOffer(C, St) ==
  AnyT(St.selPend) => /\ ~C.tournament
                      /\ \E k \in (St.street + 1)..NStreets(C) : C.streets[k].board > 0
\* (the offer is made to the players remaining when the showdown begins; one who mucks afterwards keeps his pending choice -
\* the property does not say the offer is withdrawn, so that is not asserted)
RunoutChoices(full) == SelectSeq([j \in DOMAIN full |-> IF full[j].k = "RS" THEN full[j].amt ELSE -1], LAMBDA x : x > 0)
Consensus(full) == LET c == RunoutChoices(full) IN IF c = <<>> THEN 0 ELSE IF \A j \in DOMAIN c : c[j] = c[1] THEN c[1] ELSE 1
RunoutConsensus(C, St, full) == St.runout = Consensus(full)
SelectedOnce(full) == \A i, j \in DOMAIN full : (i # j /\ full[i].k = "RS" /\ full[j].k = "RS") => full[i].p # full[j].p
RunoutBoards(C, St, full) ==
  (~St.status /\ Cardinality(LiveSet(St)) > 1 /\ St.fault = "") =>
    LET r == IF St.retIdx # 0 THEN St.runout ELSE 1
        bc == BoardCount(C, St)
    IN /\ bc = C.boards0 * r
       /\ (C.tournament => r = 1)
       /\ \A b \in 1..bc : Len(BoardCards(C, St, b)) = Len(St.board) /\ Len(St.board) >= BoardDue(C, NStreets(C))      \* every board complete
       /\ St.retIdx # 0 =>          \* the run-outs of one starting board share what was dealt before the all-in
            \A b1, b2 \in 1..bc : ((b1 - 1) \div r = (b2 - 1) \div r) =>
               SubSeq(BoardCards(C, St, b1), 1, BoardDue(C, St.retIdx - 1)) = SubSeq(BoardCards(C, St, b2), 1, BoardDue(C, St.retIdx - 1))

(***************************************************************************)
(* C12: automatic mucking and killing.  A hand can still win when, for     *)
(* some pot it is eligible for, some board and some hand type, it is at    *)
(* least as good as everything the pot's other players have tabled.        *)
(***************************************************************************)
CanStillWin(C, St, i) ==
  LET pots == PotsOf(C, St) IN
  \E k \in DOMAIN pots : InSeq(pots[k].players, i) /\
     \E b \in 1..BoardCount(C, St), t \in DOMAIN C.types :
        LET h == HandStr(C, St, i, b, t) IN
        h # NoHand /\ \A x \in DOMAIN pots[k].players : LET j == pots[k].players[x] IN j = i \/ UpStr(C, St, j, b, t) <= h
\* for a step that showed/mucked/killed by the engine's own decision: never throw away a hand that can still win
AutoDecisionOK(C, pre, op, A, post) ==
  /\ (op = "show_or_muck_hole_cards" /\ A.mode = "default" /\ pre.street # 0 /\ pre.showq # <<>>) =>
        LET p == ShowP(pre, A) IN
        (p # 0 /\ CanStillWin(C, pre, p)) => ~\E j \in DOMAIN post.log : post.log[j].k = "SM" /\ post.log[j].p = p /\ post.log[j].cards = <<>>
  /\ (op = "kill_hand" /\ AnyT(pre.killPend)) => ~CanStillWin(C, pre, KillP(pre, A))

(***************************************************************************)
(* collected                                                               *)
(***************************************************************************)
BrokenOf(r) == {f \in DOMAIN r : ~r[f]}
NoFault(St) == St.fault = ""

\* rules of a state alone (every reachable model state; every observed state)
StateRules(C, St, pots) ==
  [ C01_conserved |-> ChipsConserved(C, St.stacks, St.bets, pots),
    C01_nonneg |-> ChipsNonNeg(St.stacks, St.bets, pots),
    C01_payoff |-> PayoffIdentity(C, St.stacks, St.payoffs),
    C01_terminal |-> TerminalNothingLeft(C, St, pots),
    C06_partition |-> CardsPartition(C, St),
    C07_one_phase |-> NoFault(St) => OnePhase(St),
    C07_something_to_do |-> NoFault(St) => SomethingToDo(C, St),
    C10_dealt_as_prescribed |-> NoFault(St) => DealtAsPrescribed(C, St),
    C14_offer |-> RunoutOffer(C, St) ]
\* rules that need the history of the hand (evaluated by name, so that a run deciding one property pays for its rules only)
HistoryRuleNames == {"C02_award", "C02_corollaries", "C03_betting", "C07_bound", "C10_burns", "C13_opener", "C14_consensus", "C14_once",
                     "C14_boards"}
HistoryRule(nm, C, St, full) ==
  CASE nm = "C02_award" -> AwardApplicable(C, St) => AwardRule(C, St, full)
    [] nm = "C02_corollaries" -> AwardApplicable(C, St) => AwardCorollaries(C, St, full)
    [] nm = "C03_betting" -> NoFault(St) => BettingRuleHolds(C, St, full)
    [] nm = "C07_bound" -> Len(SelectSeq(full, LAMBDA x : x.k \notin {"NOP", "SM", "SMX"})) <= OpsBound(C, Max({1} \cup SetOfSeq(RunoutChoices(full))))
    [] nm = "C10_burns" -> NoFault(St) => BurnDiscipline(C, St, full)
    [] nm = "C13_opener" -> NoFault(St) => OpenerRuleHolds(C, St, full)
    [] nm = "C14_consensus" -> RunoutConsensus(C, St, full)
    [] nm = "C14_once" -> SelectedOnce(full)
    [] nm = "C14_boards" -> RunoutBoards(C, St, full)

\* St is an observed state (it carries its own pots report)
BrokenRules(C, St) == BrokenOf(StateRules(C, St, St.pots))
BrokenHistoryRules(C, St, full, wanted) == {nm \in HistoryRuleNames \cap wanted : ~HistoryRule(nm, C, St, full)}

\* a snapshot taken right after one operation inside a call
BrokenMicroRules(C, mic) ==
  BrokenOf([ C01_conserved |-> ChipsConserved(C, mic.stacks, mic.bets, mic.pots),
             C01_nonneg |-> ChipsNonNeg(mic.stacks, mic.bets, mic.pots),
             C01_payoff |-> PayoffIdentity(C, mic.stacks, mic.payoffs) ])

\* rules about a step (pre-state, operation, arguments, post-state, log before the step)
BrokenStepRules(C, pre, op, A, post, before) ==
  BrokenOf([ C07_order |-> (op = "show_or_muck_hole_cards" /\ pre.street = 0) \/ OrderOK(before, post.log),
             C12_auto_decision |-> AutoDecisionOK(C, pre, op, A, post) ])

RulesOf(p) ==
  CASE p = "C01" -> {"C01_conserved", "C01_nonneg", "C01_payoff", "C01_terminal"}
    [] p = "C02" -> {"C02_award", "C02_corollaries"}
    [] p = "C03" -> {"C03_betting"}
    [] p = "C06" -> {"C06_partition"}
    [] p = "C07" -> {"C07_one_phase", "C07_something_to_do", "C07_order", "C07_bound"}
    [] p = "C10" -> {"C10_dealt_as_prescribed", "C10_burns"}
    [] p = "C12" -> {"C12_auto_decision"}
    [] p = "C13" -> {"C13_opener"}
    [] p = "C14" -> {"C14_offer", "C14_consensus", "C14_once", "C14_boards", "C02_award"}     \* (even division between the boards)
    [] OTHER -> {}
=============================================================================
