------------------------------- MODULE Rules -------------------------------
(***************************************************************************)
(* The declarative layer: what the rules of poker and the documentation    *)
(* say must be true of a state / of a step, stated independently of the    *)
(* bookkeeping of the operational model.  Every rule has a name; the trace *)
(* specs report the set of broken rule names, the MC_* instances check     *)
(* each rule as an invariant of the operational model.                     *)
(*                                                                         *)
(* A state St is an abstract state of PokerKit.tla; in trace specs it also *)
(* carries the implementation's own reports: St.pots (the `pots` property) *)
(***************************************************************************)
EXTENDS PokerKit

SetOfSeq(s) == {s[i] : i \in DOMAIN s}
AllCards(St) == St.deck \o Flat(St.board) \o Flat(St.hole) \o St.burn \o St.muck \o Flat(St.disc)
NoDup(s) == \A i, j \in DOMAIN s : i # j => s[i] # s[j]

(***************************************************************************)
(* C01: chips                                                              *)
(***************************************************************************)
PotChips(pots) == SumS([k \in DOMAIN pots |-> pots[k].raked + pots[k].unraked])
ChipsConserved(C, stacks, bets, pots) == SumS(stacks) + SumS(bets) + PotChips(pots) = SumS(C.stacks0)
ChipsNonNeg(stacks, bets, pots) ==
  /\ \A i \in DOMAIN stacks : stacks[i] >= 0 /\ bets[i] >= 0
  /\ \A k \in DOMAIN pots : pots[k].raked >= 0 /\ pots[k].unraked >= 0
PayoffIdentity(C, stacks, payoffs) == \A i \in DOMAIN stacks : payoffs[i] = stacks[i] - C.stacks0[i]
TerminalNothingLeft(C, St, pots) ==
  ~St.status => /\ \A i \in DOMAIN St.bets : St.bets[i] = 0
                /\ \A k \in DOMAIN pots : pots[k].unraked = 0
                /\ SumS(St.payoffs) = 0 - SumS([k \in DOMAIN pots |-> pots[k].raked])

(***************************************************************************)
(* C06: cards                                                              *)
(***************************************************************************)
CardsPartition(C, St) ==
  LET known == KnownOnly(AllCards(St)) IN NoDup(known) /\ SetOfSeq(known) = SetOfSeq(C.deckcards)

(***************************************************************************)
(* collected                                                               *)
(***************************************************************************)
StateRules(C, St, pots) ==
  [ C01_conserved |-> ChipsConserved(C, St.stacks, St.bets, pots),
    C01_nonneg |-> ChipsNonNeg(St.stacks, St.bets, pots),
    C01_payoff |-> PayoffIdentity(C, St.stacks, St.payoffs),
    C01_terminal |-> TerminalNothingLeft(C, St, pots),
    C06_partition |-> CardsPartition(C, St) ]

BrokenOf(r) == {f \in DOMAIN r : ~r[f]}
\* St is an observed state (it carries its own pots report)
BrokenRules(C, St) == BrokenOf(StateRules(C, St, St.pots))

\* a snapshot taken right after one operation inside a call
BrokenMicroRules(C, mic) ==
  BrokenOf([ C01_conserved |-> ChipsConserved(C, mic.stacks, mic.bets, mic.pots),
             C01_nonneg |-> ChipsNonNeg(mic.stacks, mic.bets, mic.pots),
             C01_payoff |-> PayoffIdentity(C, mic.stacks, mic.payoffs) ])

\* rules about a step (pre-state, operation, arguments, post-state); filled in per property
BrokenStepRules(C, pre, op, A, post) == {}

RulesOf(p) ==
  CASE p = "C01" -> {"C01_conserved", "C01_nonneg", "C01_payoff", "C01_terminal"}
    [] p = "C06" -> {"C06_partition"}
    [] OTHER -> {}
=============================================================================
