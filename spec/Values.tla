------------------------------- MODULE Values -------------------------------
(* value normalisation, card text, divmod / rake - filled in by the C19 check *)
EXTENDS Hands, TLC
ValuesKinds == {}
ValuesOK(k, it) == TRUE
=============================================================================
