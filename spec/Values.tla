------------------------------- MODULE Values -------------------------------
(***************************************************************************)
(* C19: equivalent ways of writing chips and cards, the constructor's      *)
(* refusals, and the arithmetic helpers.                                   *)
(***************************************************************************)
EXTENDS PokerKit

(***************************************************************************)
(* A chip layout for n players written as a single number, as a sequence   *)
(* (shorter: padded with zeros, longer: cut) or as a mapping from position *)
(* to amount where position -1 is the last player (the button), -2 the one *)
(* before, ... and several keys naming the same seat add up.               *)
(***************************************************************************)
Clean(w, n) ==
  CASE w.repr = "scalar" -> [i \in 1..n |-> w.v]
    [] w.repr = "seq" -> [i \in 1..n |-> IF i <= Len(w.s) THEN w.s[i] ELSE 0]
    [] w.repr = "map" -> [i \in 1..n |-> SumS([j \in DOMAIN w.keys |->
                              IF (IF w.keys[j] >= 0 THEN w.keys[j] + 1 ELSE n + w.keys[j] + 1) = i THEN w.vals[j] ELSE 0])]
MapInRange(w, n) == w.repr = "map" => \A j \in DOMAIN w.keys : w.keys[j] \in (0 - n)..(n - 1)

ValuesKinds == {"clean", "layout", "cards", "divmod", "divmodx", "rake"}
VRep(k, it, what) == PrintT(<<"MISMATCH", k, it.kind, what, it>>)

CleanOK(k, it) ==
  IF it.raised THEN VRep(k, it, "a documented form was refused")
  ELSE it.got = Clean(it.w, it.n) \/ VRep(k, it, <<"spec", Clean(it.w, it.n)>>)

\* one layout (explicit vectors) and what each way of writing it produced: the same state, or the same refusal
LayoutOK(k, it) ==
  LET C == [n |-> it.n, antes |-> it.antes, blinds |-> it.blinds, bringin |-> it.bringin, stacks0 |-> it.stacks, boards0 |-> 1,
            streets |-> << [hole |-> <<FALSE, FALSE>>, minbet |-> it.minbet] >>]
      ok == ValidConfig(C)
  IN \A j \in DOMAIN it.results :
        LET r == it.results[j] IN
        IF ok THEN /\ ~r.raised \/ VRep(k, it, <<"a valid layout was refused, written as", r.how>>)
                   /\ r.raised \/ (r.antes = it.antes /\ r.blinds = it.blinds /\ r.stacks = it.stacks)
                         \/ VRep(k, it, <<"written as", r.how, "became", r.antes, r.blinds, r.stacks>>)
        ELSE r.raised \/ VRep(k, it, <<"an invalid layout was accepted, written as", r.how>>)

CardsOK(k, it) ==
  IF it.valid THEN /\ ~it.raised \/ VRep(k, it, "a valid spelling was refused")
                   /\ it.raised \/ it.got = it.cards \/ VRep(k, it, <<"parsed as", it.got>>)
  ELSE it.raised \/ VRep(k, it, <<"an invalid spelling was accepted as", it.got>>)

\* exact arithmetic on <<num, den>> pairs with a common denominator chosen by the harness: all values are integers here
DivModOK(k, it) ==
  IF it.integral THEN (it.q * it.d + it.r = it.a /\ it.r >= 0 /\ it.r < it.d) \/ VRep(k, it, "quotient * divisor + remainder # amount")
  ELSE (it.qd = it.a /\ it.r = 0) \/ VRep(k, it, "exact division: quotient * divisor # amount")

\* inexact chip types: all three numbers over one denominator, as base-10000 limbs (least significant first)
RECURSIVE AddLimbs(_, _, _)
AddLimbs(x, y, c) ==
  IF x = <<>> /\ y = <<>> THEN (IF c = 0 THEN <<>> ELSE <<c>>)
  ELSE LET v == (IF x = <<>> THEN 0 ELSE Head(x)) + (IF y = <<>> THEN 0 ELSE Head(y)) + c
       IN <<v % 10000>> \o AddLimbs(IF x = <<>> THEN <<>> ELSE Tail(x), IF y = <<>> THEN <<>> ELSE Tail(y), v \div 10000)
RECURSIVE Trim(_)
Trim(x) == IF x # <<>> /\ x[Len(x)] = 0 THEN Trim(SubSeq(x, 1, Len(x) - 1)) ELSE x
DivModXOK(k, it) ==
  (IF it.rneg THEN Trim(it.P) = Trim(AddLimbs(it.A, it.R, 0)) ELSE Trim(AddLimbs(it.P, it.R, 0)) = Trim(it.A))
     \/ VRep(k, it, "the shares and the remainder do not add up to the amount")

RakeOK(k, it) ==
  LET want == Rake([rake |-> [num |-> it.pnum, den |-> it.pden, cap |-> it.cap, nfnd |-> FALSE]], [board |-> <<>>], it.amount) IN
  /\ it.raked + it.unraked = it.amount \/ VRep(k, it, "raked + unraked # amount")
  /\ (it.raked >= 0 /\ it.raked <= it.amount) \/ VRep(k, it, "raked part outside 0..amount")
  /\ <<it.raked, it.unraked>> = want \/ VRep(k, it, <<"spec", want>>)

ValuesOK(k, it) ==
  CASE it.kind = "clean" -> CleanOK(k, it)
    [] it.kind = "layout" -> LayoutOK(k, it)
    [] it.kind = "cards" -> CardsOK(k, it)
    [] it.kind = "divmod" -> DivModOK(k, it)
    [] it.kind = "divmodx" -> DivModXOK(k, it)
    [] it.kind = "rake" -> RakeOK(k, it)
=============================================================================
