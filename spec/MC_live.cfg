SPECIFICATION FairSpec
CHECK_DEADLOCK FALSE
PROPERTY Prop_C07_terminates
