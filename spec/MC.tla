--------------------------------- MODULE MC ---------------------------------
(***************************************************************************)
(* Exhaustive model checking of bounded instances of PokerKit.tla against  *)
(* the declarative rules of Rules.tla.                                     *)
(*                                                                         *)
(* The instance (file named by MCCFG) lists configurations, each with the  *)
(* deck orders to try.  Every operation - also the ones automation would   *)
(* perform inside a call - is one transition, so each invariant is         *)
(* evaluated after every single operation (C01: "checked after every       *)
(* single operation including the ones fired by automation").  While an    *)
(* automated operation is due, it is the only transition (the engine       *)
(* leaves the user no choice); otherwise the user may perform any          *)
(* (operation, arguments) of the universe whose guard holds.               *)
(*                                                                         *)
(* full: the operation log of the hand (history variable, kept when the    *)
(* instance says so: the state graph is then the tree of histories).       *)
(***************************************************************************)
EXTENDS Rules, Json, IOUtils

Inst == JsonDeserialize(IOEnv.MCCFG)
KeepHist == Inst.keephist

VARIABLES cid, did, S, full
vars == <<cid, did, S, full>>
C == Inst.cfgs[cid].cfg
Deck0 == Inst.cfgs[cid].decks[did]

Init ==
  /\ cid \in DOMAIN Inst.cfgs
  /\ did \in DOMAIN Inst.cfgs[cid].decks
  /\ S = BeginAnte(Inst.cfgs[cid].cfg, Fresh(Inst.cfgs[cid].cfg, Inst.cfgs[cid].decks[did]))
  /\ full = <<>>

(***************************************************************************)
(* The universe of user requests at a state                                *)
(***************************************************************************)
WithP(p) == [NoArgs EXCEPT !.p = p]
Chips == SumS(C.stacks0)
DiscardChoices(s) == {SetToSeq(x) : x \in SUBSET ToSetS(s)}           \* discard choices (cards of a hand are distinct)
Universe ==
  {<<op, NoArgs>> : op \in OpNames \ {"no_operate"}}
  \cup {<<op, WithP(p)>> : op \in {"post_ante", "post_blind_or_straddle", "deal_hole", "kill_hand", "pull_chips", "select_runout_count"}, p \in Pl(C)}
  \* shows only at a showdown: the non-standard show (outside a showdown, with an explicit player) changes nothing that matters
  \* here and would make the history unbounded; it is bound to the code by the trace specifications only
  \cup (IF S.street # 0 THEN {<<"show_or_muck_hole_cards", WithP(p)>> : p \in Pl(C)} ELSE {})
  \cup {<<"complete_bet_or_raise_to", [NoArgs EXCEPT !.has = TRUE, !.amt = a]>> : a \in 0..(Chips + 1)}
  \cup {<<"select_runout_count", [NoArgs EXCEPT !.p = p, !.has = TRUE, !.amt = a]>> : p \in 0..C.n, a \in 0..Inst.maxrunout}
  \cup (IF S.street # 0 THEN {<<"show_or_muck_hole_cards", [NoArgs EXCEPT !.p = p, !.mode = "bool", !.b = b]>> : p \in 0..C.n, b \in BOOLEAN} ELSE {})
  \cup (IF AnyT(S.drawPend) THEN {<<"stand_pat_or_discard", [NoArgs EXCEPT !.cards = cs]>> : cs \in DiscardChoices(S.hole[FirstT(S.drawPend)])} ELSE {})
  \cup {<<op, [NoArgs EXCEPT !.mode = "count", !.n = k]>> : op \in {"deal_hole", "deal_board"}, k \in 1..Inst.counts}

StepTo(T) ==
  /\ S' = T
  /\ full' = IF KeepHist THEN full \o T.log ELSE <<>>
  /\ UNCHANGED <<cid, did>>

AutoNext == AutoOp(C, S) # "" /\ StepTo(AutoStep(C, [S EXCEPT !.log = <<>>]))
UserNext == AutoOp(C, S) = "" /\ \E x \in Universe : Guard(C, S, x[1], x[2]) /\ StepTo(Do(C, [S EXCEPT !.log = <<>>], x[1], x[2]))
Next == S.fault = "" /\ S.status /\ (AutoNext \/ UserNext)
Spec == Init /\ [][Next]_vars
FairSpec == Spec /\ WF_vars(Next)

(***************************************************************************)
(* Invariants: one per rule, so that TLC names the broken one.  States in  *)
(* which the model itself declares a pot without an owner (fault           *)
(* OrphanPot), or in which every player has mucked, are the known finding  *)
(* "orphan pot": the rules are not asserted of them; every other fault is  *)
(* a violation of C07 (an operation of the engine failing part-way).       *)
(***************************************************************************)
Sane == S.fault = "" /\ (S.status \/ Live(S) > 0)
OnlyKnownFaults == S.fault \in {"", "OrphanPot"}
Pots == PotsOf(C, S)
Inv_C01_conserved == Sane => ChipsConserved(C, S.stacks, S.bets, Pots)
Inv_C01_nonneg == Sane => ChipsNonNeg(S.stacks, S.bets, Pots)
Inv_C01_payoff == Sane => PayoffIdentity(C, S.stacks, S.payoffs)
Inv_C01_terminal == Sane => TerminalNothingLeft(C, S, Pots)
Inv_C06_partition == Sane => CardsPartition(C, S)
Inv_C07_one_phase == Sane => OnePhase(S)
Inv_C07_something_to_do == Sane => SomethingToDo(C, S)
Inv_C10_dealt == Sane => DealtAsPrescribed(C, S)
Inv_C14_offer == Sane => RunoutOffer(C, S)
\* rules over the history (instances that keep it)
H(nm) == (KeepHist /\ Sane) => HistoryRule(nm, C, S, full)
Inv_C02_award == H("C02_award")
Inv_C02_corollaries == H("C02_corollaries")
Inv_C03_betting == H("C03_betting")
Inv_C07_bound == H("C07_bound")
Inv_C10_burns == H("C10_burns")
Inv_C13_opener == (KeepHist /\ Sane /\ ~(C.n = 2 /\ C.blinds[1] = C.blinds[2] /\ C.blinds[1] > 0)) => HistoryRule("C13_opener", C, S, full)
Inv_C14_consensus == H("C14_consensus")
Inv_C14_once == H("C14_once")
Inv_C14_boards == H("C14_boards")

\* C12 at model level: the engine's own decision never throws away a hand that can still win part of a pot it is eligible
\* for (declarative CanStillWin vs the operational can-win-now), and whoever is due to be killed cannot
Inv_C12_show == (Sane /\ S.street # 0 /\ S.showq # <<>>) =>
                   LET p == Head(S.showq) IN CanStillWin(C, S, p) => (S.allin \/ CanWinNow(C, S, p))
Inv_C12_kill == Sane => \A i \in Pl(C) : S.killPend[i] => ~CanStillWin(C, S, i)

\* C08 at model level: a request is either accepted or refused - the verdict is defined (TLC would fail to evaluate otherwise)
Inv_C08_total == \A x \in Universe : Verdict(C, S, x[1], x[2]) \in {"ok", "warn", "refuse"}

\* C07: the order of phases, as an action property over the kinds of consecutive operations
OrderStep == S'.log # <<>> => OrderOK(IF S.log = <<>> THEN <<>> ELSE S.log, S'.log)
Prop_C07_order == [][OrderStep]_vars
\* C07: every hand ends (under fairness: as long as something is enabled it is eventually done)
Prop_C07_terminates == <>(~S.status \/ S.fault # "")
\* C01 as an action property: chips only move, between stack, bet and pot
Prop_C01_step == [][SumS(S'.stacks) + SumS(S'.bets) + PotChips(PotsOf(C, S')) = SumS(S.stacks) + SumS(S.bets) + PotChips(PotsOf(C, S)) \/ S'.fault # ""]_vars

(***************************************************************************)
(* C15 (a) at model level: the log is a faithful record - re-applying the  *)
(* logged operations with the logged players, amounts and cards to a fresh *)
(* un-automated state reproduces the state.                                *)
(***************************************************************************)
RecCall(r) ==
  CASE r.k = "AP" -> <<"post_ante", WithP(r.p)>>
    [] r.k = "BC" -> <<"collect_bets", NoArgs>>
    [] r.k = "BP" -> <<"post_blind_or_straddle", WithP(r.p)>>
    [] r.k = "CB" -> <<"burn_card", [NoArgs EXCEPT !.mode = "cards", !.cards = r.cards]>>
    [] r.k = "HD" -> <<"deal_hole", [NoArgs EXCEPT !.p = r.p, !.mode = "cards", !.cards = r.cards]>>
    [] r.k = "BD" -> <<"deal_board", [NoArgs EXCEPT !.mode = "cards", !.cards = r.cards]>>
    [] r.k = "SD" -> <<"stand_pat_or_discard", [NoArgs EXCEPT !.cards = r.cards]>>
    [] r.k = "F" -> <<"fold", NoArgs>>
    [] r.k = "CC" -> <<"check_or_call", NoArgs>>
    [] r.k = "BI" -> <<"post_bring_in", NoArgs>>
    [] r.k = "CBR" -> <<"complete_bet_or_raise_to", [NoArgs EXCEPT !.has = TRUE, !.amt = r.amt]>>
    [] r.k = "RS" -> <<"select_runout_count", [NoArgs EXCEPT !.p = r.p, !.has = r.amt > 0, !.amt = r.amt]>>
    [] r.k = "SM" -> <<"show_or_muck_hole_cards", IF r.cards = <<>> THEN [NoArgs EXCEPT !.p = r.p, !.mode = "bool", !.b = FALSE]
                                                  ELSE [NoArgs EXCEPT !.p = r.p, !.mode = "cards", !.cards = r.cards]>>
    [] r.k = "HK" -> <<"kill_hand", WithP(r.p)>>
    [] r.k = "PUSH" -> <<"push_chips", NoArgs>>
    [] r.k = "PULL" -> <<"pull_chips", WithP(r.p)>>
RECURSIVE Replay(_, _, _, _)
Replay(CC, T, log, j) ==
  IF j > Len(log) THEN T
  ELSE LET x == RecCall(log[j]) IN
       IF Guard(CC, T, x[1], x[2]) THEN Replay(CC, Do(CC, [T EXCEPT !.log = <<>>], x[1], x[2]), log, j + 1)
       ELSE [T EXCEPT !.fault = "replay refused"]
NoLogS(T) == [T EXCEPT !.log = <<>>]
Inv_C15_replay ==
  (KeepHist /\ Sane) =>
     LET CC == [C EXCEPT !.autos = <<>>, !.werr = FALSE]
     IN NoLogS(Replay(CC, BeginAnte(CC, Fresh(CC, Deck0)), full, 1)) = NoLogS(S)

(***************************************************************************)
(* Behaviours for the spec -> code replay: every terminal history of an    *)
(* instance that keeps the log is printed (as JSON) and re-executed on the *)
(* real code by the harness, which compares logs and final chips.          *)
(***************************************************************************)
EmitBehaviours == "EMIT" \in DOMAIN IOEnv /\ IOEnv.EMIT = "1"
\* on the big instances only a random 1/K of the terminal histories is printed (EMITK = "10" / "100")
EmitK == IF "EMITK" \in DOMAIN IOEnv THEN (CASE IOEnv.EMITK = "10" -> 10 [] IOEnv.EMITK = "100" -> 100 [] OTHER -> 1) ELSE 1
Emit == (EmitBehaviours /\ KeepHist /\ (~S.status \/ S.fault # "") /\ (EmitK = 1 \/ RandomElement(1..EmitK) = 1)) =>
           PrintT(<<"BEH", ToJson([cid |-> cid, did |-> did, log |-> full, stacks |-> S.stacks, status |-> S.status, fault |-> S.fault])>>)
=============================================================================
