----------------------------- MODULE TraceHands -----------------------------
(***************************************************************************)
(* Trace validation (code -> spec).  The file named by the environment     *)
(* variable TRACE holds one JSON record per line, one per hand played on   *)
(* the real pokerkit.State:                                                *)
(*   [tid, cfg, deck0, create |-> [out, post], steps |-> << [op, a, out,   *)
(*    post, same, probes |-> << [op, a, r, x] >>, micro |-> << ... >>] >>] *)
(* A behaviour of this spec consumes the steps of one hand: position l,    *)
(* model state S.  At every step TLC decides                               *)
(*   - every probe: the query's answer equals the model's guard;           *)
(*   - the call's outcome (ok / ValueError / UserWarning) is the model's;  *)
(*   - an accepted call leads to exactly the model's successor (incl. the  *)
(*     operations appended by the automation cascade);                     *)
(*   - a refused call left the state (all fields, by digest) unchanged;    *)
(*   - every rule of Rules.tla holds in the observed state and in every    *)
(*     per-operation snapshot taken inside the cascade.                    *)
(* A disagreement is printed as one MISMATCH line (naming the clause) and  *)
(* validation continues from the observed state, so the rest of the trace  *)
(* is still checked.  Every hand ends with one DONE line; the harness      *)
(* requires as many DONE lines as hands.                                   *)
(***************************************************************************)
EXTENDS PokerKit, Rules, Json, IOUtils

Hands == ndJsonDeserialize(IOEnv.TRACE)

VARIABLES tid, l, S
vars == <<tid, l, S>>

Diff(m, p) ==
  IF DOMAIN m # DOMAIN p THEN <<"domain", (DOMAIN m) \ (DOMAIN p), (DOMAIN p) \ (DOMAIN m)>>
  ELSE LET D == {f \in DOMAIN m : m[f] # p[f]} IN [f \in D |-> <<m[f], p[f]>>]

Report(t, k, clause, info) == PrintT(<<"MISMATCH", t, k, clause, info>>)

\* an observed state carries, besides the abstract state, the implementation's own reports (pots, total)
Core(St) == [f \in (DOMAIN St) \ {"pots", "total"} |-> St[f]]
ObsOK(t, k, C, St) ==
  /\ PotsOf(C, St) = St.pots \/ Report(t, k, "pots", <<"model", PotsOf(C, St), "code", St.pots>>)
  /\ TotalPot(C, St) = St.total \/ Report(t, k, "total-pot", <<"model", TotalPot(C, St), "code", St.total>>)

\* rules on an observed state
RulesOK(t, k, C, St) ==
  LET bad == BrokenRules(C, St) IN bad = {} \/ Report(t, k, "rule", bad)

MicroOK(t, k, C, ev) ==
  \A j \in DOMAIN ev.micro :
     LET bad == BrokenMicroRules(C, ev.micro[j]) IN bad = {} \/ Report(t, k, "microrule", <<j, bad>>)

ProbesOK(t, k, C, St, ev) ==
  \A j \in DOMAIN ev.probes :
     LET pr == ev.probes[j] IN
     IF pr.x # "" THEN Report(t, k, "probe-raised", <<pr.op, pr.a, pr.x>>)
     ELSE LET g == Guard(C, St, pr.op, pr.a) IN
          g = pr.r \/ Report(t, k, "probe", <<pr.op, pr.a, "model", g, "code", pr.r>>)

\* the model's view of one recorded step; returns the state to continue from
StepOK(t, k, C, St, ev) ==
  /\ ProbesOK(t, k, C, St, ev)
  /\ IF ev.op = "none" THEN TRUE
     ELSE LET mo == Outcome(C, St, ev.op, ev.a) IN
          /\ mo = ev.out \/ Report(t, k, "outcome", <<ev.op, ev.a, "model", mo, "code", ev.out>>)
          /\ IF ev.out = "ok" /\ mo = "ok"
             THEN LET m == Apply(C, St, ev.op, ev.a) IN
                  /\ Core(m) = Core(ev.post) \/ Report(t, k, "post", <<ev.op, ev.a, Diff(Core(m), Core(ev.post))>>)
                  /\ ObsOK(t, k, C, ev.post)
                  /\ RulesOK(t, k, C, ev.post)
                  /\ StepRulesOK(C, St, ev.post) \/ Report(t, k, "steprule", BrokenStepRules(C, St, ev.post))
                  /\ MicroOK(t, k, C, ev)
             ELSE IF ev.out = "ok" THEN RulesOK(t, k, C, ev.post) /\ MicroOK(t, k, C, ev)
             ELSE ev.same \/ Report(t, k, "refused-but-changed", <<ev.op, ev.a, ev.out>>)

NextState(St, ev) == IF ev.op # "none" /\ ev.out = "ok" THEN ev.post ELSE St

\* TLC explores both sides of a disjunction when it evaluates an action or an initial predicate; the checks below must be
\* evaluated as plain (short-circuiting) expressions, hence Force.
Force(b) == b = TRUE

CreateOK(t, H) ==
  IF H.create.out = "ok"
  THEN LET m == Create(H.cfg, H.deck0) IN
       /\ ValidConfig(H.cfg) \/ Report(t, 0, "create-accepted-invalid", <<>>)
       /\ Core(m) = Core(H.create.post) \/ Report(t, 0, "create", Diff(Core(m), Core(H.create.post)))
       /\ ObsOK(t, 0, H.cfg, H.create.post)
       /\ RulesOK(t, 0, H.cfg, H.create.post)
       /\ MicroOK(t, 0, H.cfg, H.create)
  ELSE Report(t, 0, "create-raised", H.create.out)

Init ==
  /\ tid \in DOMAIN Hands
  /\ l = 0
  /\ Force(CreateOK(tid, Hands[tid]))
  /\ S = IF Hands[tid].create.out = "ok" THEN Hands[tid].create.post ELSE [fault |-> "create:" \o Hands[tid].create.out]

Next ==
  /\ S.fault = ""
  /\ l < Len(Hands[tid].steps)
  /\ LET H == Hands[tid]
         ev == H.steps[l + 1]
     IN /\ Force(StepOK(tid, l + 1, H.cfg, S, ev))
        /\ S' = NextState(S, ev)
        /\ l' = l + 1
        /\ UNCHANGED tid

Finished == IF l = Len(Hands[tid].steps) \/ S.fault # "" THEN PrintT(<<"DONE", tid, l>>) ELSE TRUE
Spec == Init /\ [][Next]_vars
=============================================================================
