----------------------------- MODULE TraceHands -----------------------------
(***************************************************************************)
(* Trace validation (code -> spec).  The file named by the environment     *)
(* variable TRACE holds one JSON record per line, one per hand played on   *)
(* the real pokerkit.State:                                                *)
(*   [tid, cfg, deck0, create |-> [out, post], steps |-> << [op, a, out,   *)
(*    post, same, probes |-> << [op, a, r, x] >>, micro |-> << ... >>] >>] *)
(* A behaviour of this spec consumes the steps of one hand: position l,    *)
(* model state S.  At every step TLC decides                               *)
(*   - every probe: the query's answer equals the model's guard;           *)
(*   - the call's outcome (ok / ValueError / UserWarning) is the model's;  *)
(*   - an accepted call leads to exactly the model's successor (incl. the  *)
(*     operations appended by the automation cascade);                     *)
(*   - a refused call left the state (all fields, by digest) unchanged;    *)
(*   - every rule of Rules.tla holds in the observed state and in every    *)
(*     per-operation snapshot taken inside the cascade.                    *)
(* A disagreement is printed as one MISMATCH line (naming the clause) and  *)
(* validation continues from the observed state, so the rest of the trace  *)
(* is still checked.  Every hand ends with one DONE line; the harness      *)
(* requires as many DONE lines as hands.                                   *)
(***************************************************************************)
EXTENDS TraceOps

Hands == ndJsonDeserialize(IOEnv.TRACE)

VARIABLES tid, l, S, full
vars == <<tid, l, S, full>>

Init ==
  /\ tid \in DOMAIN Hands
  /\ l = 0
  \* a record that resumes a hand from an observed state (the repository's tests sometimes assign the deck directly) is not
  \* compared with the model's creation
  /\ Force(("resume" \in DOMAIN Hands[tid] /\ Hands[tid].resume) \/ CreateOK(tid, Hands[tid]))
  /\ S = IF Hands[tid].create.out = "ok" THEN Hands[tid].create.post ELSE [fault |-> "create:" \o Hands[tid].create.out]
  /\ full = IF Hands[tid].create.out = "ok" THEN Hands[tid].create.post.log ELSE <<>>

Next ==
  /\ S.fault = ""
  /\ l < Len(Hands[tid].steps)
  /\ LET H == Hands[tid]
         ev == H.steps[l + 1]
     IN /\ Force(StepOK(tid, l + 1, CfgOf(H), S, ev, full, TRUE))
        /\ full' = IF ev.op # "none" /\ (ev.out = "ok" \/ ~ev.same) THEN full \o TagLog(S, ev) ELSE full
        /\ S' = NextState(S, ev)
        /\ l' = l + 1
        /\ UNCHANGED tid

Finished == IF l = Len(Hands[tid].steps) \/ S.fault # "" THEN PrintT(<<"DONE", tid, l>>) ELSE TRUE
Spec == Init /\ [][Next]_vars
=============================================================================
