#!/bin/sh
# tools/run_on_seed.sh <patch.diff> <scratch worktree> <out tag> <property ids...>
# runs ./check for the given properties against a scratch worktree with the patch applied (never /repo); prints rc per property
PATCH="$1"; WT="$2"; TAG="$3"; shift 3
cd "$WT" || exit 2
git checkout -q -- . ; git clean -qfd
git apply "$PATCH" || exit 2
cd /verif
for P in "$@"; do
  mkdir -p /tmp/seedrun/$TAG
  POKERKIT_REPO="$WT" VERIF_OUT=/tmp/seedrun/$TAG/out VERIF_EVID=/tmp/seedrun/$TAG/evidence ./check "$P" > /tmp/seedrun/$TAG/$P.log 2>&1
  echo "$TAG $P rc=$? $(grep -c '^VIOLATION' /tmp/seedrun/$TAG/$P.log) violations"
done
cd "$WT" && git checkout -q -- . && git clean -qfd
rm -rf /tmp/seedrun/$TAG/out
