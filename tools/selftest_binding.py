#!/usr/bin/env python3
"""Self-test of the binding between recorded executions and the specification (not a property check):
every corruption of a recorded trace must be rejected by TLC, the untouched traces accepted.
usage: python3-vt tools/selftest_binding.py"""
import copy
import os
import random
import sys

os.environ['POKERKIT_VERIF_TRACE'] = '1'
sys.path.insert(0, os.path.dirname(os.path.dirname(os.path.abspath(__file__))))
from harness import games, walk, tlc  # noqa: E402

rng = random.Random(11)
base = []
while len(base) < 6:
    spec = games.random_spec(rng, autos='all', variants=['NT', 'F7S', 'F2L3D'])
    spec['werr'] = True
    r = walk.play_hand(len(base) + 1, spec, rng, walk.Policy(probe_level=1, illegal=0.1))
    if r.get('finished') and len(r['steps']) > 6:
        base.append(r)


def corrupt(kind, rec):
    r = copy.deepcopy(rec)
    oks = [j for j, ev in enumerate(r['steps']) if ev['op'] != 'none' and ev['out'] == 'ok']
    if kind == 'chip added to a stack':
        r['steps'][oks[len(oks) // 2]]['post']['stacks'][0] += 1
    elif kind == 'operation dropped from a cascade':
        j = max(oks, key=lambda x: len(r['steps'][x]['post']['log']))
        del r['steps'][j]['post']['log'][-1]
    elif kind == 'query answer flipped':
        j = next(j for j, ev in enumerate(r['steps']) if ev['probes'])
        r['steps'][j]['probes'][3]['r'] = not r['steps'][j]['probes'][3]['r']
    elif kind == 'card swapped in the deck':
        p = r['steps'][oks[1]]['post']
        if len(p['deck']) > 1:
            p['deck'][0], p['deck'][1] = p['deck'][1], p['deck'][0]
    elif kind == 'refused call reported as having changed the state':
        for ev in r['steps']:
            if ev['out'] == 'ValueError':
                ev['same'] = False
                ev['post'] = {}
                ev['same'] = False
                break
        else:
            r['steps'][oks[0]]['post']['bets'][0] += 1
    elif kind == 'automation step reordered':
        j = max(oks, key=lambda x: len(r['steps'][x]['post']['log']))
        lg = r['steps'][j]['post']['log']
        if len(lg) > 1:
            lg[0], lg[1] = lg[1], lg[0]
    return r


kinds = ['chip added to a stack', 'operation dropped from a cascade', 'query answer flipped', 'card swapped in the deck',
         'automation step reordered']
recs = [dict(r) for r in base]
label = {r['tid']: 'untouched' for r in recs}
tid = 100
for k in kinds:
    for r in base[:3]:
        c = corrupt(k, r)
        c['tid'] = tid
        label[tid] = k
        recs.append(c)
        tid += 1
res = tlc.validate_traces(recs, 'selftest_binding')
bad = {}
for m in res['mismatches']:
    bad.setdefault(m['tid'], []).append(m['clause'])
ok = True
for t in sorted(label):
    rejected = t in bad
    expect = label[t] != 'untouched'
    print(f"trace {t:4d} {label[t]:48s} {'REJECTED ' + str(sorted(set(bad.get(t, []))))[:60] if rejected else 'accepted'}")
    ok &= rejected == expect
print('binding self-test', 'PASSED' if ok else 'FAILED')
sys.exit(0 if ok else 1)
