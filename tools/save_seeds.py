#!/usr/bin/env python3
"""copy confirmed seeded defects from /tmp/seed_out into /verif/seeded/<id>/ with a meta.json; detection results are merged
from /tmp/seedrun/<tag>/<prop>.log when present"""
import json, os, re, shutil, glob
SRC = '/tmp/seed_out'
DST = '/verif/seeded'
NEEDS = json.load(open('/verif/tools/seed_needs.json'))
for d in sorted(glob.glob(SRC + '/C??/[ab]') + glob.glob(SRC + '/C??2/[ab]') + glob.glob(SRC + '/C??3/[ab]') + glob.glob(SRC + '/C??4/[ab]')):
    pid, x = d.split('/')[-2:]
    cf = os.path.join(d, 'confirm.json')
    if not os.path.exists(cf):
        continue
    try:
        c = json.loads(open(cf).read().strip().splitlines()[-1])
    except Exception:
        continue
    cd = os.path.join(d, 'confirm_demo.json')
    if os.path.exists(cd):
        c2 = json.loads(open(cd).read().strip().splitlines()[-1])
        c['demo_clean_rc'], c['demo_patched_rc'] = c2['demo_clean_rc'], c2['demo_patched_rc']
    ok = c.get('applies') and c.get('demo_clean_rc') == 0 and c.get('demo_patched_rc') not in (0, None) and c.get('suite_rc') == 0
    if not ok:
        print('NOT CONFIRMED', pid, x, c)
        continue
    sid = f'{pid}{x}'
    pid = pid[:3]
    out = os.path.join(DST, sid)
    os.makedirs(out, exist_ok=True)
    for f in ('patch.diff', 'demo.py', 'notes.md', 'notes.txt'):
        if os.path.exists(os.path.join(d, f)):
            shutil.copy(os.path.join(d, f), os.path.join(out, f))
    det = {}
    for log in glob.glob(f'/tmp/seedrun/{sid}/C??.log'):
        p = os.path.basename(log)[:-4]
        txt = open(log).read()
        nv = len(re.findall(r'^VIOLATION', txt, re.M))
        first = re.search(r'^VIOLATION.*\n\s+(.*)', txt, re.M)
        det[p] = {'violation_lines': nv, 'first': (first.group(1)[:300] if first else None),
                  'machinery_failure': 'MACHINERY-FAILURE' in txt}
    meta_path = os.path.join(out, 'meta.json')
    old = json.load(open(meta_path)) if os.path.exists(meta_path) else {}
    det_all = old.get('detected_by', {})
    det_all.update(det)
    meta = {
        'id': sid, 'breaks_property': pid,
        'needs_to_manifest': NEEDS.get(sid, 'see notes.md'),
        'origin': 'written by an independent sub-agent that saw only the property text and a scratch worktree',
        'confirmed': {'patch_applies': True, 'demo_exit_unpatched': c['demo_clean_rc'], 'demo_exit_patched': c['demo_patched_rc'],
                      'repository_suite_with_patch': c['suite']},
        'what_was_run': ['tools/confirm_seed.sh <dir> <scratch worktree>  (demo unpatched, demo patched, full pytest suite patched)',
                         'tools/run_on_seed.sh <patch> <scratch worktree> <tag> <property ids>  (./check against the patched worktree via POKERKIT_REPO)'],
        'detected_by': det_all,
    }
    json.dump(meta, open(meta_path, 'w'), indent=1)
    print(sid, 'saved; detected_by', {k: v['violation_lines'] for k, v in det_all.items()})
