#!/bin/sh
# tools/confirm_seed.sh <src dir with patch.diff demo.py> <scratch worktree>  -> prints JSON verdict
# confirms: demo passes unpatched, fails patched, full test-suite passes patched.  Leaves the worktree clean.
SRC="$1"; WT="$2"
cd "$WT" || exit 2
git checkout -q -- . ; git clean -qfd
cp "$SRC/demo.py" /tmp/demo_$$.py
PYTHONPATH="$WT" /venv/bin/python /tmp/demo_$$.py >/tmp/demo_$$.clean 2>&1; RC_CLEAN=$?
git apply "$SRC/patch.diff" || { echo '{"applies": false}'; exit 1; }
PYTHONPATH="$WT" /venv/bin/python /tmp/demo_$$.py >/tmp/demo_$$.patched 2>&1; RC_PATCHED=$?
if [ -n "$SKIP_SUITE" ]; then echo skipped >/tmp/demo_$$.suite; RC_SUITE=-1; else /venv/bin/python -m pytest -q -p no:cacheprovider --timeout=900 -x >/tmp/demo_$$.suite 2>&1; RC_SUITE=$?; fi
SUITE="$(tail -1 /tmp/demo_$$.suite)"
git checkout -q -- . ; git clean -qfd
rm -f /tmp/demo_$$.*
echo "{\"applies\": true, \"demo_clean_rc\": $RC_CLEAN, \"demo_patched_rc\": $RC_PATCHED, \"suite_rc\": $RC_SUITE, \"suite\": \"$SUITE\"}"
