#!/usr/bin/env python3
"""print a markdown table of what the committed evidence files say (used for DESIGN.md section 10.7)"""
import glob, json, os
rows = []
for f in sorted(glob.glob(os.path.join(os.path.dirname(os.path.dirname(os.path.abspath(__file__))), 'evidence', 'C*.json'))):
    e = json.load(open(f))
    c = e['coverage']
    mc = {k.split(':')[1]: v for k, v in c.get('mechanisms', {}).items() if k.startswith('mc_states:')}
    rows.append((e['property_id'], e['tier'], e['seed'], c['states'], c['traces_validated_against_impl'], c['evaluations'], c['distinct_nontrivial'],
                 ', '.join(f'{k} {v}' for k, v in mc.items()) or '-', ', '.join(f'{k} x{v}' for k, v in c.get('known_findings_seen', {}).items()) or '-',
                 e['wall_s']))
print('| id | tier | seed | TLC states | traces validated | calls+queries / items judged | distinct non-trivial | exhaustive instances (states) | known findings seen | wall s |')
print('|---|---|---|---|---|---|---|---|---|---|')
for r in rows:
    print('| ' + ' | '.join(str(x) for x in r) + ' |')
