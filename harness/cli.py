"""./check <id> [--tier quick|thorough] [--replay path]"""
from __future__ import annotations

import argparse
import os
import sys

from .runner import Run, main_wrapper


def run_check(pid, tier, seed):
    from . import registry
    fn = registry.CHECKS[pid]
    run = Run(pid, tier, seed)
    fn(run)
    return run.finish()


def main(argv=None):
    ap = argparse.ArgumentParser()
    ap.add_argument('pid')
    ap.add_argument('--tier', default=os.environ.get('VERIF_TIER') or 'quick', choices=['quick', 'thorough'])
    ap.add_argument('--replay')
    a = ap.parse_args(argv)
    seed = int(os.environ.get('VERIF_SEED') or 0)
    if a.replay:
        from . import registry
        return main_wrapper(lambda p, t, s: registry.replay(p, a.replay), a.pid, a.tier, seed)
    return main_wrapper(run_check, a.pid, a.tier, seed)


if __name__ == '__main__':
    sys.exit(main())
