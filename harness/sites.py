"""C20: a no-limit hold'em hand played on the engine, written out the way six poker sites write their logs.

The renderers are part of the oracle (trusted base): they were written from public knowledge of the formats - line syntax, the
raise-by / raise-to / chips-added conventions, seat and button lines, summary lines - and only emit constructs that the
importers' own patterns name.  They are purely syntactic: what is printed comes from the operation log of the source hand."""
from __future__ import annotations

from . import pk

NAMES = ['anna', 'bert', 'cleo', 'dirk', 'elsa', 'finn', 'gwen', 'hank', 'iris']
R, S = '23456789TJQKA', 'cdhs'


def cs(c):
    return R[c // 4] + S[c % 4]


class Fmt:
    commas = False          # thousands separators (the sites whose patterns allow them)


def money(x):
    return f'${x:,}' if Fmt.commas else f'${x}'


class Hand:
    """what the renderers need, extracted from the operation log of a finished (or folded-out) NT hand"""

    def __init__(self, rec, ops, n, stacks, seats, names, hero):
        self.n, self.stacks, self.seats, self.names, self.hero = n, stacks, seats, names, hero
        self.button_seat = seats[n - 1] if n > 2 else seats[1]      # (the caller may move it to an empty seat: dead button)
        self.blinds = []          # (player, amount) in posting order
        self.hole = {}
        self.streets = [[]]       # per street: list of (player, kind, to, added, call, allin)
        self.boards = []          # per street: cards
        self.shows = []           # (player, cards or None)
        self.collected = {}
        bet = [0] * n
        stack = list(stacks)
        last_bd = False
        for o in ops:
            k = o['k']
            p = o['p'] - 1
            if k != 'BD':
                last_bd = False
            if k == 'BP':
                self.blinds.append((p, o['amt']))
                bet[p] += o['amt']
                stack[p] -= o['amt']
            elif k == 'HD':
                self.hole.setdefault(p, []).extend(o['cards'])
            elif k == 'BD':
                if last_bd:
                    self.boards[-1].extend(o['cards'])
                else:
                    self.boards.append(list(o['cards']))
                    self.streets.append([])
                    bet = [0] * n
                last_bd = True
            elif k == 'F':
                self.streets[-1].append((p, 'fold', 0, 0, 0, False))
            elif k == 'CC':
                stack[p] -= o['amt']
                bet[p] += o['amt']
                self.streets[-1].append((p, 'call' if o['amt'] else 'check', bet[p], o['amt'], o['amt'], stack[p] == 0))
            elif k == 'CBR':
                mx = max(bet)
                added = o['amt'] - bet[p]
                stack[p] -= added
                kind = 'bet' if mx == 0 else 'raise'
                self.streets[-1].append((p, kind, o['amt'], added, o['amt'] - mx, stack[p] == 0))
                bet[p] = o['amt']
            elif k == 'SM':
                self.shows.append((p, list(o['cards']) or None))
            elif k == 'PUSH':
                for i, a in enumerate(o['amts']):
                    if a:
                        self.collected[i] = self.collected.get(i, 0) + a
        self.final_stacks = [int(x) for x in rec['final_stacks']]
        self.pot = sum(self.collected.values())

    def nm(self, p):
        return self.names[p]

    def seat_order(self):
        return sorted(range(self.n), key=lambda p: self.seats[p])


STREET = ['FLOP', 'TURN', 'RIVER']


def board_so_far(h, j):
    return [c for b in h.boards[:j] for c in b]


def pokerstars(h: Hand):
    L = [f"PokerStars Game #27738502010:  Hold'em No Limit ($1/$2) - 2009/05/02 13:32:38 ET",
         f"Table 'Sabauda IV' 9-max Seat #{h.button_seat} is the button"]
    for p in h.seat_order():
        L.append(f'Seat {h.seats[p]}: {h.nm(p)} ({money(h.stacks[p])} in chips)')
    for (p, a), w in zip(h.blinds, ('small', 'big')):
        L.append(f'{h.nm(p)}: posts {w} blind {money(a)}')
    L.append('*** HOLE CARDS ***')
    L.append(f'Dealt to {h.nm(h.hero)} [{" ".join(cs(c) for c in h.hole[h.hero])}]')
    for j, acts in enumerate(h.streets):
        if j > 0:
            prev = board_so_far(h, j - 1)
            new = h.boards[j - 1]
            L.append(f'*** {STREET[j - 1]} *** ' + (f'[{" ".join(map(cs, prev))}] ' if prev else '') + f'[{" ".join(map(cs, new))}]')
        for p, kind, to, added, by, allin in acts:
            ai = ' and is all-in' if allin else ''
            if kind == 'fold':
                L.append(f'{h.nm(p)}: folds')
            elif kind == 'check':
                L.append(f'{h.nm(p)}: checks')
            elif kind == 'call':
                L.append(f'{h.nm(p)}: calls {money(added)}{ai}')
            elif kind == 'bet':
                L.append(f'{h.nm(p)}: bets {money(to)}{ai}')
            else:
                L.append(f'{h.nm(p)}: raises {money(by)} to {money(to)}{ai}')
    if h.shows:
        L.append('*** SHOW DOWN ***')
        for p, cards in h.shows:
            L.append(f'{h.nm(p)}: shows [{" ".join(map(cs, cards))}] (a hand)' if cards else f'{h.nm(p)}: mucks hand')
    for p, a in h.collected.items():
        L.append(f'{h.nm(p)} collected {money(a)} from pot')
    L.append('*** SUMMARY ***')
    L.append(f'Total pot {money(h.pot)} | Rake $0')
    for p in h.seat_order():
        L.append(f'Seat {h.seats[p]}: {h.nm(p)} ' + (f'collected ({money(h.collected[p])})' if p in h.collected else 'folded'))
    return '\n'.join(L) + '\n\n\n\n'


def fulltilt(h: Hand):
    L = [f"Full Tilt Poker Game #12345678901: Table Alpha (9 max) - $1/$2 - No Limit Hold'em - 13:32:38 ET - 2009/05/02"]
    for p in h.seat_order():
        L.append(f'Seat {h.seats[p]}: {h.nm(p)} ({money(h.stacks[p])})')
    for (p, a), w in zip(h.blinds, ('small', 'big')):
        L.append(f'{h.nm(p)} posts the {w} blind of {money(a)}')
    L.append(f'The button is in seat #{h.button_seat}')
    L.append('*** HOLE CARDS ***')
    L.append(f'Dealt to {h.nm(h.hero)} [{" ".join(cs(c) for c in h.hole[h.hero])}]')
    for j, acts in enumerate(h.streets):
        if j > 0:
            prev = board_so_far(h, j - 1)
            new = h.boards[j - 1]
            L.append(f'*** {STREET[j - 1]} *** ' + (f'[{" ".join(map(cs, prev))}] ' if prev else '') + f'[{" ".join(map(cs, new))}]')
        for p, kind, to, added, by, allin in acts:
            ai = ', and is all in' if allin else ''
            if kind == 'fold':
                L.append(f'{h.nm(p)} folds')
            elif kind == 'check':
                L.append(f'{h.nm(p)} checks')
            elif kind == 'call':
                L.append(f'{h.nm(p)} calls {money(added)}{ai}')
            elif kind == 'bet':
                L.append(f'{h.nm(p)} bets {money(to)}{ai}')
            else:
                L.append(f'{h.nm(p)} raises to {money(to)}{ai}')
    if h.shows:
        L.append('*** SHOW DOWN ***')
        for p, cards in h.shows:
            L.append(f'{h.nm(p)} shows [{" ".join(map(cs, cards))}] a hand' if cards else f'{h.nm(p)} mucks')
    for p, a in h.collected.items():
        L.append(f'{h.nm(p)} wins the pot ({money(a)})')
    L.append('*** SUMMARY ***')
    L.append(f'Total pot {money(h.pot)} | Rake $0')
    for p in h.seat_order():
        L.append(f'Seat {h.seats[p]}: {h.nm(p)} ' + (f'collected ({money(h.collected[p])})' if p in h.collected else 'folded'))
    return '\n'.join(L) + '\n\n\n\n'


def partypoker(h: Hand):
    L = ['Game #8212345678 starts.', '', '#Game No : 8212345678 ', '***** Hand History for Game 8212345678 *****',
         "$200 USD NL Texas Hold'em - Saturday, May 02, 13:32:38 ET 2009", 'Table Alpha (Real Money)',
         f'Seat {h.button_seat} is the button', f'Total number of players : {h.n} ']
    for p in h.seat_order():
        L.append(f'Seat {h.seats[p]}: {h.nm(p)} ( {money(h.stacks[p])} USD )')
    for (p, a), w in zip(h.blinds, ('small', 'big')):
        L.append(f'{h.nm(p)} posts {w} blind [{money(a)} USD].')
    L.append('** Dealing down cards **')
    L.append(f'Dealt to {h.nm(h.hero)} [  {" ".join(cs(c) for c in h.hole[h.hero])} ]')
    for j, acts in enumerate(h.streets):
        if j > 0:
            L.append(f'** Dealing {STREET[j - 1].capitalize()} ** [ {", ".join(map(cs, h.boards[j - 1]))} ]')
        for p, kind, to, added, by, allin in acts:
            if kind == 'fold':
                L.append(f'{h.nm(p)} folds')
            elif kind == 'check':
                L.append(f'{h.nm(p)} checks')
            elif kind == 'call':
                L.append(f'{h.nm(p)} calls [{money(added)} USD]')
            elif kind == 'bet':
                L.append(f'{h.nm(p)} bets [{money(to)} USD]')
            elif allin:
                L.append(f'{h.nm(p)} is all-In  [{money(added)} USD]')
            else:
                L.append(f'{h.nm(p)} raises [{money(added)} USD]')
    for p, cards in h.shows:
        L.append(f'{h.nm(p)} shows [ {", ".join(map(cs, cards))} ]a hand.' if cards else f'{h.nm(p)} does not show cards.')
    for p, a in h.collected.items():
        L.append(f'{h.nm(p)} wins {money(a)} USD from the main pot.')
    return '\n'.join(L) + '\n\n\n\n'


def ongame(h: Hand):
    L = ['***** History for hand R5-123456789-12 *****', 'Start hand: Sat May 02 13:32:38 GMT+0100 2009',
         'Table: Alpha [123456789] (NO_LIMIT TEXAS_HOLDEM $1/$2, Real money)', f'User: {h.nm(h.hero)}', f'Button: seat {h.button_seat}',
         f'Players in round: {h.n}']
    for p in h.seat_order():
        L.append(f'Seat {h.seats[p]}: {h.nm(p)} ({money(h.stacks[p])}) ')
    for (p, a), w in zip(h.blinds, ('small', 'big')):
        L.append(f'{h.nm(p)} posts {w} blind ({money(a)})')
    L.append('---')
    L.append('Dealing pocket cards')
    L.append(f'Dealing to {h.nm(h.hero)}: [{", ".join(cs(c) for c in h.hole[h.hero])}]')
    for j, acts in enumerate(h.streets):
        if j > 0:
            L.append(f'--- Dealing {STREET[j - 1].lower()} [{", ".join(map(cs, h.boards[j - 1]))}]')
        for p, kind, to, added, by, allin in acts:
            ai = ' [all in]' if allin else ''
            if kind == 'fold':
                L.append(f'{h.nm(p)} folds')
            elif kind == 'check':
                L.append(f'{h.nm(p)} checks')
            elif kind == 'call':
                L.append(f'{h.nm(p)} calls {money(added)}{ai}')
            elif kind == 'bet':
                L.append(f'{h.nm(p)} bets {money(to)}{ai}')
            else:
                L.append(f'{h.nm(p)} raises {money(added)} to {money(to)}{ai}')
    L.append('---')
    L.append('Summary:')
    for p, a in h.collected.items():
        L.append(f'Main pot: {money(h.pot)} won by {h.nm(p)} ({money(a)})')
    L.append('Rake taken: $0')
    shown = {p: c for p, c in h.shows if c}
    for p in h.seat_order():
        net = h.final_stacks[p] - h.stacks[p]
        sign = '+' if net > 0 else '-' if net < 0 else ''
        line = f'Seat {h.seats[p]}: {h.nm(p)} ({money(h.final_stacks[p])}), net: {sign}{money(abs(net))}'
        if p in shown:
            line += f', [{", ".join(map(cs, shown[p]))}] (A HAND)'
        L.append(line)
    L.append('***** End of hand R5-123456789-12 *****')
    return '\n'.join(L) + '\n\n\n\n'


def absolute(h: Hand):
    L = [f'Stage #1234567890: Holdem  No Limit $2 - 2009-05-02 13:32:38 (ET)',
         f'Table: ALPHA AVE (Real Money) Seat #{h.button_seat} is the dealer']
    for p in h.seat_order():
        L.append(f'Seat {h.seats[p]} - {h.nm(p)} ({money(h.stacks[p])} in chips)')
    for (p, a), w in zip(h.blinds, ('small', 'big')):
        L.append(f'{h.nm(p)} - Posts {w} blind {money(a)}')
    L.append('*** POCKET CARDS ***')
    for j, acts in enumerate(h.streets):
        if j > 0:
            prev = board_so_far(h, j - 1)
            new = h.boards[j - 1]
            L.append(f'*** {STREET[j - 1]} *** ' + (f'[{" ".join(map(cs, prev))}] ' if prev else '') + f'[{" ".join(map(cs, new))}]')
        for p, kind, to, added, by, allin in acts:
            if kind == 'fold':
                L.append(f'{h.nm(p)} - Folds')
            elif kind == 'check':
                L.append(f'{h.nm(p)} - Checks')
            elif kind == 'call':
                L.append(f'{h.nm(p)} - Calls {money(added)}')
            elif kind == 'bet':
                L.append(f'{h.nm(p)} - Bets {money(to)}')
            elif allin:
                L.append(f'{h.nm(p)} - All-In(Raise) {money(added)} to {money(to)}')
            else:
                L.append(f'{h.nm(p)} - Raises {money(added)} to {money(to)}')
    if h.shows:
        L.append('*** SHOW DOWN ***')
        for p, cards in h.shows:
            L.append(f'{h.nm(p)} - Shows [{" ".join(c10(c) for c in cards)}] (a hand)' if cards else f'{h.nm(p)} - Mucks')
    for p, a in h.collected.items():
        L.append(f'{h.nm(p)} Collects {money(a)} from main pot')
    L.append('*** SUMMARY ***')
    L.append(f'Total Pot({money(h.pot)})')
    for p in h.seat_order():
        L.append(f'Seat {h.seats[p]}: {h.nm(p)} ' + (f'collected Total ({money(h.collected[p])})' if p in h.collected else 'Folded'))
    return '\n'.join(L) + '\n\n\n\n'


def c10(c):
    """Absolute writes a ten as 10"""
    r = R[c // 4]
    return ('10' if r == 'T' else r) + S[c % 4]


def ipoker(h: Hand):
    """iPoker XML (cards suit-first: 'sA', a ten as '10'); no explicit show lines: used for hands that end without a showdown"""
    def ic(c):
        r = R[c // 4]
        return S[c % 4] + ('10' if r == 'T' else r)
    bet_total = {p: h.stacks[p] - h.final_stacks[p] + h.collected.get(p, 0) for p in range(h.n)}
    L = ['<session sessioncode="123">', '<general>', '<tablename>Alpha</tablename>', '<currency>USD</currency>', '</general>',
         '<game gamecode="3000000006">', '<general>', '<startdate>2009-06-11 20:15:02</startdate>', '<players>']
    for p in h.seat_order():
        L.append(f'<player seat="{h.seats[p]}" name="{h.nm(p)}" chips="{money(h.stacks[p])}" dealer="{1 if h.seats[p] == h.button_seat else 0}" '
                 f'win="{money(h.collected.get(p, 0))}" bet="{money(bet_total[p])}" />')
    L += ['</players>', '</general>', '<round no="0">']
    no = 1
    for (p, a), t in zip(h.blinds, (1, 2)):
        L.append(f'<action no="{no}" player="{h.nm(p)}" type="{t}" sum="{money(a)}" cards="" />')
        no += 1
    L.append('</round>')
    for j, acts in enumerate(h.streets):
        L.append(f'<round no="{j + 1}">')
        if j == 0:
            for p in h.seat_order():
                cards = ' '.join(ic(c) for c in h.hole[p]) if p == h.hero else 'X X'
                L.append(f'<cards type="Pocket" player="{h.nm(p)}">{cards}</cards>')
        else:
            L.append(f'<cards type="{STREET[j - 1].capitalize()}" player="">{" ".join(map(ic, h.boards[j - 1]))}</cards>')
        for p, kind, to, added, by, allin in acts:
            t, s = {'fold': (0, 0), 'check': (4, 0), 'call': (3, added), 'bet': (5, to), 'raise': (23, to)}[kind]
            L.append(f'<action no="{no}" player="{h.nm(p)}" type="{t}" sum="{money(s)}" cards="" />')
            no += 1
        L.append('</round>')
    L += ['</game>', '</session>']
    return '\n'.join(L) + '\n'


RENDER = {'pokerstars': pokerstars, 'fulltilt': fulltilt, 'partypoker': partypoker, 'ongame': ongame, 'absolute': absolute, 'ipoker': ipoker}
IMPORT = {'pokerstars': 'from_pokerstars', 'fulltilt': 'from_full_tilt_poker', 'partypoker': 'from_partypoker', 'ongame': 'from_ongame_network',
          'absolute': 'from_absolute_poker', 'ipoker': 'from_ipoker_network'}
