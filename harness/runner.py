"""Verdict plumbing shared by every check: evidence file, violation/replay files, known findings, exit codes.

exit 0  the property held on everything explored (KNOWN-FINDING lines may have been printed)
exit 1  at least one violation that the known-findings file does not list (VIOLATION lines printed)
exit 2  machinery failure (TLC crash, a trace without verdict, a vacuous run) - never a pass
"""
from __future__ import annotations

import json
import os
import sys
import time
import traceback

VERIF = os.path.dirname(os.path.dirname(os.path.abspath(__file__)))
OUT = os.environ.get('VERIF_OUT') or os.path.join(VERIF, 'out')
EVID = os.environ.get('VERIF_EVID') or os.path.join(VERIF, 'evidence')
KF_FILE = os.path.join(VERIF, 'known_findings.json')


class Vacuous(Exception):
    """a mechanism the property depends on was never exercised by this run"""


def load_known():
    with open(KF_FILE) as f:
        return json.load(f)


class Run:
    def __init__(self, pid: str, tier: str, seed: int, level='model_checking'):
        self.pid, self.tier, self.seed, self.level = pid, tier, seed, level
        self.t0 = time.time()
        self.states = 0
        self.transitions = 0
        self.traces = 0
        self.evaluations = 0
        self.nontrivial = set()
        self.nontrivial_extra = 0
        self.samples = []
        self.mech = {}
        self.parts = []            # per sub-check summaries
        self.violations = []
        self.known_hits = {}
        self.assumptions = ['TLC 1.8 and the CommunityModules evaluate the specification correctly',
                            'the Python harness only drives the code, renames, integer-encodes and counts; every judgement is a TLA+ expression']
        self.rule = ''
        self.exhaustive = None
        self.extra = {}
        self.known = [k for k in load_known()['findings'] if self.pid in k['properties']]
        os.makedirs(os.path.join(OUT, 'replay'), exist_ok=True)

    # ---- accumulation
    def add_tlc(self, states, transitions):
        self.states += int(states)
        self.transitions += int(transitions)

    def count(self, name, k=1):
        self.mech[name] = self.mech.get(name, 0) + k

    def sample(self, x, limit=6):
        if len(self.samples) < limit:
            self.samples.append(x)

    def part(self, name, **kw):
        d = {'part': name}
        d.update(kw)
        self.parts.append(d)
        print(f'[{self.pid}] {name}: ' + ', '.join(f'{k}={v}' for k, v in kw.items()), flush=True)

    def need(self, *names):
        """vacuity guard: every named mechanism must have been exercised"""
        missing = [n for n in names if not self.mech.get(n)]
        if missing and self.violations:
            # violations were found and reported: they are the verdict (exit 1); the unexercised mechanism is noted
            print(f'[{self.pid}] note: mechanisms never exercised in this run: {missing}', flush=True)
            return
        if missing:
            raise Vacuous(f'mechanisms never exercised in this run: {missing}')

    # ---- violations
    def violation(self, signature: str, what: str, replay: dict):
        """signature: a stable description of the failing situation used to match the known-findings file"""
        for k in self.known:
            if k.get('status', 'open') == 'open' and signature in k['signatures']:
                n = self.known_hits.get(k['id'], 0)
                self.known_hits[k['id']] = n + 1
                if n == 0:
                    print(f"KNOWN-FINDING: property={self.pid} {k['id']}: {k['what']} (first instance: {what[:300]})", flush=True)
                return False
        n = len(self.violations) + 1
        path = os.path.join(OUT, 'replay', f'{self.pid}_{n}.json')
        if n <= 25:
            with open(path, 'w') as f:
                json.dump({'property': self.pid, 'signature': signature, 'what': what, 'replay': replay}, f, indent=1, default=str)
            print(f'VIOLATION property={self.pid} replay={path}', flush=True)
            print(f'  {signature}: {what[:1500]}', flush=True)
        self.violations.append(signature)
        return True

    # ---- the end
    def finish(self):
        cov = {
            'states': self.states, 'transitions': self.transitions,
            'traces_validated_against_impl': self.traces,
            'evaluations': max(self.evaluations, 1),
            'distinct_nontrivial': len(self.nontrivial) + self.nontrivial_extra,
            'rule': self.rule,
            'samples': self.samples or ['(none)'],
            'mechanisms': self.mech,
            'parts': self.parts,
            'known_findings_seen': self.known_hits,
        }
        if self.exhaustive is not None:
            cov['exhaustive'] = self.exhaustive
        cov.update(self.extra)
        ev = {
            'property_id': self.pid, 'tier': self.tier, 'seed': self.seed, 'level': self.level,
            'coverage': cov, 'assumptions': self.assumptions, 'wall_s': round(time.time() - self.t0, 1),
            'violations': len(self.violations),
        }
        os.makedirs(EVID, exist_ok=True)
        with open(os.path.join(EVID, f'{self.pid}.json'), 'w') as f:
            json.dump(ev, f, indent=1, default=str)
        print(f'[{self.pid}] tier={self.tier} seed={self.seed} states={self.states} transitions={self.transitions} '
              f'traces={self.traces} evaluations={self.evaluations} nontrivial={cov["distinct_nontrivial"]} '
              f'violations={len(self.violations)} known={self.known_hits} wall={ev["wall_s"]}s', flush=True)
        return 1 if self.violations else 0


def main_wrapper(fn, pid, tier, seed):
    """run a check function; translate machinery failures into exit 2"""
    from .tlc import MachineryError
    try:
        return fn(pid, tier, seed)
    except Vacuous as e:
        print(f'MACHINERY-FAILURE property={pid} vacuous run: {e}', flush=True)
        return 2
    except MachineryError as e:
        print(f'MACHINERY-FAILURE property={pid} {e}', flush=True)
        return 2
    except Exception:  # noqa: BLE001
        traceback.print_exc()
        print(f'MACHINERY-FAILURE property={pid} harness exception', flush=True)
        return 2
