"""Random walks over the real State (driver D-rand) producing hand traces for spec/TraceHands.tla."""
from __future__ import annotations

import random

from . import pk, play, games
from .play import A, NOARGS
from .pk import State, card_int


def dealable(st: State, k=None):
    return [card_int(c) for c in st.get_dealable_cards(k)]


def probe_universe(st: State, rng: random.Random, level: int):
    """candidate (operation, arguments) pairs asked at a state; level 0: defaults; 1: + every player / boundary
    amounts; 2: + card arguments"""
    n = st.player_count
    out = [(op, NOARGS) for op in play.OPS]
    if level >= 1:
        for op in ('post_ante', 'post_blind_or_straddle', 'kill_hand', 'pull_chips', 'deal_hole', 'select_runout_count',
                   'show_or_muck_hole_cards'):
            for p in range(1, n + 1):
                out.append((op, A(p=p)))
        for p in range(1, n + 1):
            out.append(('show_or_muck_hole_cards', A(p=p, mode='bool', b=True)))
            out.append(('show_or_muck_hole_cards', A(p=p, mode='bool', b=False)))
        out.append(('show_or_muck_hole_cards', A(mode='bool', b=True)))
        out.append(('show_or_muck_hole_cards', A(mode='bool', b=False)))
        for i in list(st.showdown_indices)[:3]:          # explicit shows: one card, all but one, all
            h = [card_int(c) for c in st.hole_cards[i]]
            if h and 52 not in h:
                for cs in (h[:1], h[:-1], h, h[1:]):
                    if cs:
                        out.append(('show_or_muck_hole_cards', A(p=i + 1, mode='cards', cards=cs)))
        for rc in (-3, 0, 1, 2, 3):
            out.append(('select_runout_count', A(has=True, amt=rc)))
            out.append(('select_runout_count', A(has=True, amt=rc, p=rng.randint(1, n))))
        amts = set()
        mn = st.min_completion_betting_or_raising_to_amount
        mx = st.max_completion_betting_or_raising_to_amount
        pt = st.pot_completion_betting_or_raising_to_amount
        if st.actor_index is not None:
            i = st.actor_index
            allin = st.stacks[i] + st.bets[i]
            base = [0, 1, max(st.bets), allin - 1, allin, allin + 1]
            if mn is not None:
                base += [mn - 1, mn, mn + 1, mx - 1, mx, mx + 1, pt - 1, pt, pt + 1, (mn + mx) // 2]
            amts = {pk.chip(b) for b in base if b >= 0}
            q = pk.Units.quantum()
            if mn is not None and pk.chip(mx) - pk.chip(mn) <= 16 * q:
                amts |= set(range(pk.chip(mn), pk.chip(mx) + 1, q))
        else:
            amts = {x * pk.Units.quantum() for x in (0, 1, 2, 5)}
        for a in sorted(amts):
            out.append(('complete_bet_or_raise_to', A(has=True, amt=a)))
        for k in (0, 1, 2, 3, 5):
            out.append(('deal_hole', A(mode='count', n=k)))
            out.append(('deal_board', A(mode='count', n=k)))
    if level >= 2:
        d = dealable(st)
        inplay = [card_int(c) for c in st.cards_in_play]
        for op in ('burn_card', 'deal_hole', 'deal_board'):
            if d:
                out.append((op, A(mode='cards', cards=d[:1])))
                out.append((op, A(mode='cards', cards=[rng.choice(d)])))
                out.append((op, A(mode='cards', cards=d[:2])))
                out.append((op, A(mode='cards', cards=d[:4])))
            out.append((op, A(mode='cards', cards=[52])))
            out.append((op, A(mode='cards', cards=[52, 52])))
            if inplay:
                out.append((op, A(mode='cards', cards=[rng.choice(inplay)])))
        j = st.stander_pat_or_discarder_index
        if j is not None:
            h = [card_int(c) for c in st.hole_cards[j]]
            out.append(('stand_pat_or_discard', A(cards=h[:1])))
            out.append(('stand_pat_or_discard', A(cards=h)))
            out.append(('stand_pat_or_discard', A(cards=h[:1] * 2)))
            if d:
                out.append(('stand_pat_or_discard', A(cards=d[:1])))
        else:
            out.append(('stand_pat_or_discard', A(cards=[0])))
    return out


class Policy:
    """weights of the random player"""
    def __init__(self, **kw):
        self.fold = 0.12
        self.raise_ = 0.3
        self.allin = 0.08
        self.explicit_cards = 0.25      # deal explicit (dealable) cards instead of letting the engine choose
        self.unknown_cards = 0.0        # deal '??' hole cards
        self.multi_card = 0.4           # several cards per deal call
        self.manual_show = 0.35         # show/muck by explicit boolean
        self.muck = 0.3
        self.partial_show = 0.08        # cash games: table only some of the hole cards
        self.runout = 0.7               # probability a selector expresses a preference
        self.noop = 0.02
        self.commentary = ()            # texts for no_operate(commentary=...)
        self.illegal = 0.15             # attempt an illegal request before the legal one
        self.explicit_player = 0.4
        self.discard = 0.7
        self.exhaust = False            # draw games: discard so that the deck runs out exactly
        self.allow_orphan = False
        self.muck_allin = False         # voluntary mucks also in all-in showdowns (when a tabled hand covers every pot)
        self.probe_level = 1
        self.probe_every = 1.0
        self.max_runout = 3
        for k, v in kw.items():
            setattr(self, k, v)


def room_for_runouts(st: State, r: int) -> bool:
    """keep hole + burns + boards * runouts within the deck (C07/C14 quantifier: a deck large enough for the deal)"""
    if st.street_index is None:
        return False
    rest = st.streets[st.street_index + 1:]
    need = sum(s.board_dealing_count * st.starting_board_count + (1 if s.card_burning_status else 0) for s in rest) * r
    return need <= len(st.deck_cards)


def safe_to_muck(st: State, i: int, allin_too: bool = False) -> bool:
    """A voluntary muck that cannot leave a pot without a live eligible player who has tabled his hand: not in an all-in
    showdown, and somebody else who is in every pot that i is in has already shown.  (Mucks outside this rule run into
    the known 'orphan pot' family; they are exercised separately.)"""
    if st.all_in_status and not allin_too:
        return False
    pots = list(st.pots)
    for j in st.player_indices:
        if j != i and st.statuses[j] and st.hole_card_statuses[j] and all(st.hole_card_statuses[j]) \
                and j not in st.showdown_indices:
            if all(j in p.player_indices for p in pots if i in p.player_indices):
                return True
    return False


def legal_moves(st: State, rng: random.Random, pol: Policy, werr: bool):
    """a list of (weight, op, args) believed legal (asked of the implementation's own queries)"""
    n = st.player_count
    mv = []
    ex = rng.random() < pol.explicit_player

    def pend(statuses):
        return [i + 1 for i, s in enumerate(statuses) if s]
    if st.can_post_ante():
        ps = pend(st.ante_posting_statuses)
        mv.append((1, 'post_ante', A(p=rng.choice(ps) if ex else 0)))
    if st.can_collect_bets():
        mv.append((1, 'collect_bets', NOARGS))
    if st.can_post_blind_or_straddle():
        ps = pend(st.blind_or_straddle_posting_statuses)
        mv.append((1, 'post_blind_or_straddle', A(p=rng.choice(ps) if ex else 0)))
    if any(st.standing_pat_or_discarding_statuses):
        j = st.stander_pat_or_discarder_index
        h = [card_int(c) for c in st.hole_cards[j]]
        if pol.exhaust and h:
            # aim at a deck that is exactly empty once this street's replacement cards are out (boundary of the replenish
            # rule and of whatever is due next)
            si = st.street_index
            target = len(st.deck_cards) - (1 if st.card_burning_status else 0)
            done = len(st.discarded_cards[si])
            rest = sum(1 for x in st.standing_pat_or_discarding_statuses if x)
            need = target - done
            lo, hi = max(0, need - len(h) * (rest - 1)), min(len(h), need)
            k = rng.randint(lo, hi) if 0 <= lo <= hi else rng.randint(0, len(h))
            cs = rng.sample(h, k)
        elif rng.random() < pol.discard and h:
            k = rng.randint(1, len(h))
            cs = rng.sample(h, k)
        else:
            cs = []
        if 52 in cs and h.count(52) < cs.count(52):
            cs = []
        mv.append((1, 'stand_pat_or_discard', A(cards=cs)))
    elif st.card_burning_status:
        d = dealable(st, 1)
        if rng.random() < pol.explicit_cards and d:
            mv.append((1, 'burn_card', A(mode='cards', cards=[rng.choice(dealable(st, 1))])))
        elif rng.random() < pol.unknown_cards:
            mv.append((1, 'burn_card', A(mode='cards', cards=[52])))
        else:
            mv.append((1, 'burn_card', NOARGS))
    else:
        hp = [i + 1 for i, d in enumerate(st.hole_dealing_statuses) if d]
        if hp:
            p = rng.choice(hp) if ex else 0
            tgt = (p - 1) if p else st.hole_dealee_index
            room = len(st.hole_dealing_statuses[tgt])
            k = rng.randint(1, room) if rng.random() < pol.multi_card else 1
            r = rng.random()
            if r < pol.unknown_cards and all(not s for s in list(st.hole_dealing_statuses[tgt])[:k]):
                mv.append((2, 'deal_hole', A(p=p, mode='cards', cards=[52] * k)))
            elif r < pol.unknown_cards + pol.explicit_cards:
                d = dealable(st, k)
                if len(d) >= k:
                    mv.append((2, 'deal_hole', A(p=p, mode='cards', cards=rng.sample(d, k))))
                else:
                    mv.append((2, 'deal_hole', A(p=p)))
            elif k > 1 or rng.random() < 0.3:
                mv.append((2, 'deal_hole', A(p=p, mode='count', n=k)))
            else:
                mv.append((2, 'deal_hole', A(p=p)))
        if any(st.board_dealing_counts):
            want = st.board_dealing_count
            k = rng.randint(1, want) if rng.random() < pol.multi_card else want
            r = rng.random()
            if r < pol.explicit_cards:
                d = dealable(st, k)
                if len(d) >= k:
                    mv.append((1, 'deal_board', A(mode='cards', cards=rng.sample(d, k))))
                else:
                    mv.append((1, 'deal_board', NOARGS))
            elif k != want or rng.random() < 0.3:
                mv.append((1, 'deal_board', A(mode='count', n=k)))
            else:
                mv.append((1, 'deal_board', NOARGS))
    if st.actor_indices:
        i = st.actor_index
        if st.bring_in_status:
            mv.append((2, 'post_bring_in', NOARGS))
        else:
            facing = max(st.bets) > st.bets[i]
            with play.filt(werr):
                cf = st.can_fold()
            if cf and not facing and not pol.allow_orphan:
                # a fold without facing a bet (cash games only warn): keep somebody live in every pot the folder is in
                cf = any(j != i and st.statuses[j] and -st.payoffs[j] >= -st.payoffs[i] for j in st.player_indices)
            if cf:
                mv.append((pol.fold * (3 if facing else 1), 'fold', NOARGS))
            mv.append((1 - pol.fold - pol.raise_, 'check_or_call', NOARGS))
        mn = st.min_completion_betting_or_raising_to_amount
        mx = st.max_completion_betting_or_raising_to_amount
        if mn is not None and st.can_complete_bet_or_raise_to():
            mnc, mxc = pk.chip(mn), pk.chip(mx)
            den = pk.Units.den

            def whole(x):
                # fractional chip types: wagers stay whole chips (the units are chosen so that pots of whole chips split exactly)
                if den == 1:
                    return x
                lo, hi = -(-mnc // den), mxc // den
                return min(max(x // den, lo), hi) * den if lo <= hi else mnc
            r = rng.random()
            if r < pol.allin / max(pol.raise_, 1e-9):
                amt = A(has=True, amt=mxc)
            elif r < 0.5:
                amt = NOARGS
            elif r < 0.75:
                amt = A(has=True, amt=whole(min(mxc, mnc + rng.randint(0, max(1, mnc)))))
            else:
                amt = A(has=True, amt=whole(rng.randint(mnc, mxc)))
            mv.append((pol.raise_, 'complete_bet_or_raise_to', amt))
    if st.street_index is not None:
        sel = pend(st.runout_count_selector_statuses)
        if sel:
            p = rng.choice(sel) if ex else 0
            if rng.random() < pol.runout:
                rc = rng.choice([1, 2, 2, 2, 3, pol.max_runout])
                if not room_for_runouts(st, rc) or (st.runout_count not in (None, rc) and False):
                    rc = 1
                # the agreed count is the first expressed one: keep later voters within what the deck can cover
                mv.append((1, 'select_runout_count', A(p=p, has=True, amt=rc)))
            else:
                mv.append((1, 'select_runout_count', A(p=p)))
        if st.showdown_indices:
            q = [i + 1 for i in st.showdown_indices]
            p = rng.choice(q) if ex else 0
            who = (p - 1) if p else st.showdown_indices[0]
            hc = [card_int(c) for c in st.hole_cards[who]]
            if 52 in hc:
                # a hand with unknown cards cannot be tabled as it is: muck it, or table known cards in their place
                if rng.random() < pol.muck and (pol.allow_orphan or safe_to_muck(st, who, pol.muck_allin)):
                    mv.append((1, 'show_or_muck_hole_cards', A(p=p, mode='bool', b=False)))
                else:
                    d = dealable(st)
                    need = hc.count(52)
                    if len(d) >= need:
                        fill = rng.sample(d, need)
                        cs = [c if c != 52 else fill.pop() for c in hc]
                        mv.append((1, 'show_or_muck_hole_cards', A(p=p, mode='cards', cards=cs)))
                    else:
                        mv.append((1, 'show_or_muck_hole_cards', A(p=p, mode='bool', b=False)))
            elif hc and rng.random() < pol.partial_show and st.mode == pk.Mode.CASH_GAME:
                # table only some of the cards (allowed in cash games)
                k = rng.randint(1, len(hc))
                mv.append((1, 'show_or_muck_hole_cards', A(p=p, mode='cards', cards=rng.sample(hc, k))))
            elif rng.random() < pol.manual_show:
                b = rng.random() >= pol.muck or not (pol.allow_orphan or safe_to_muck(st, who, pol.muck_allin))
                mv.append((1, 'show_or_muck_hole_cards', A(p=p, mode='bool', b=b)))
            else:
                mv.append((1, 'show_or_muck_hole_cards', A(p=p)))
    if st.can_kill_hand():
        ps = pend(st.hand_killing_statuses)
        mv.append((1, 'kill_hand', A(p=rng.choice(ps) if ex else 0)))
    if st.can_push_chips():
        mv.append((1, 'push_chips', NOARGS))
    if st.can_pull_chips():
        ps = pend(st.chips_pulling_statuses)
        mv.append((1, 'pull_chips', A(p=rng.choice(ps) if ex else 0)))
    return mv


def illegal_move(st: State, rng: random.Random, pol: Policy):
    """a request that is probably refused (the model decides whether it really must be)"""
    n = st.player_count
    r = rng.random()
    if r < 0.35:
        op = rng.choice(play.OPS[:-1])
        return op, NOARGS
    if r < 0.55:
        op = rng.choice(['post_ante', 'post_blind_or_straddle', 'kill_hand', 'pull_chips', 'deal_hole',
                         'select_runout_count', 'show_or_muck_hole_cards'])
        return op, A(p=rng.randint(1, n))
    if r < 0.8:
        mn = st.min_completion_betting_or_raising_to_amount
        mx = st.max_completion_betting_or_raising_to_amount
        if mn is not None:
            q = pk.Units.quantum()
            return 'complete_bet_or_raise_to', A(has=True, amt=rng.choice([pk.chip(mn) - q, pk.chip(mx) + q, 0]))
        return 'complete_bet_or_raise_to', A(has=True, amt=rng.randint(0, 20) * pk.Units.quantum())
    if r < 0.9:
        return rng.choice(['deal_hole', 'deal_board']), A(mode='count', n=rng.choice([0, 6, 9]))
    return 'select_runout_count', A(has=True, amt=rng.choice([0, -1, 2]), p=rng.randint(1, n))


def play_hand(tid: int, spec: dict, rng: random.Random, pol: Policy, max_steps=400, keep_state=None) -> dict:
    """one hand on the real engine, from construction to the end, as a trace record"""
    werr = spec.get('werr', True)
    mic = []
    pk.Tracer.active = lambda s, o: mic.append(play.snapshot(s, o))
    try:
        with play.filt(werr):
            st = games.create(spec)
        out = 'ok'
    except ValueError:
        st, out = None, 'ValueError'
    except BaseException as e:  # noqa: BLE001
        st, out = None, 'Other:' + type(e).__name__
    finally:
        pk.Tracer.active = None
    rec = {'tid': tid, 'spec': spec, 'deck0': pk.Shuffles.last_deck, 'steps': []}
    if st is None:
        rec['cfg'] = spec.get('cfg_hint', {})
        rec['create'] = {'out': out, 'post': {}, 'micro': []}
        return rec
    rec['cfg'] = pk.project_cfg(st, werr=werr, rake=spec.get('rake'),
                                extra={'deckcards': sorted(card_int(c) for c in st.deck), 'variant': spec['variant'], 'sb': pk.chip(spec.get('sb', 0)), 'bb': pk.chip(spec.get('bb', 0)), 'deck': games.deck_name(st.deck)})
    rec['create'] = {'out': 'ok', 'post': play.observe(st, 0), 'micro': mic}
    if spec.get('via_phh') == 'written':
        rec['cfg']['written'] = games.Last.written or ''
    steps = rec['steps']
    k = 0
    while k < max_steps:
        k += 1
        probes, psame = [], True
        if rng.random() < pol.probe_every:
            try:
                uni = probe_universe(st, rng, pol.probe_level)
            except Exception as e:  # noqa: BLE001
                steps.append(play.probe_only([{'op': 'no_operate', 'a': NOARGS, 'r': False, 'x': 'query raised ' + type(e).__name__, 'v': ''}]))
                break
            probes, psame = play.probes(st, uni, werr)
        try:
            moves = legal_moves(st, rng, pol, werr)
        except Exception as e:  # noqa: BLE001 - one of the engine's own queries raised while the driver was choosing a move
            steps.append(play.probe_only(probes + [{'op': 'no_operate', 'a': NOARGS, 'r': False, 'x': 'query raised ' + type(e).__name__, 'v': ''}],
                                         psame))
            break
        if not moves:
            steps.append(play.probe_only(probes, psame))
            break
        if rng.random() < pol.illegal:
            op, a = illegal_move(st, rng, pol)
            ev = play.step(st, op, a, werr, probes, psame=psame)
            steps.append(ev)
            probes, psame = [], True
            if ev['out'].startswith('Other:'):
                break
            if ev['out'] == 'ok':
                continue
        if rng.random() < pol.noop:
            na = dict(NOARGS, c=rng.choice(pol.commentary)) if pol.commentary else NOARGS
            steps.append(play.step(st, 'no_operate', na, werr, probes, psame=psame))
            probes, psame = [], True
        tot = sum(w for w, _, _ in moves)
        x = rng.random() * tot
        for w, op, a in moves:
            x -= w
            if x <= 0:
                break
        ev = play.step(st, op, a, werr, probes, psame=psame)
        steps.append(ev)
        if ev['out'].startswith('Other:'):
            break
    rec['finished'] = not st.status
    if keep_state is not None:
        keep_state['state'] = st
    return rec
