"""Driving the real State: call encoding (the argument record A of PokerKit.tla <-> Python calls), step recording,
probe universe.  Nothing here judges a result; records go to TLC."""
from __future__ import annotations

import warnings

from . import pk
from .pk import State, Tracer, card_int, int_card, project, digest, chip

OPS = ['post_ante', 'collect_bets', 'post_blind_or_straddle', 'burn_card', 'deal_hole', 'deal_board',
       'stand_pat_or_discard', 'fold', 'check_or_call', 'post_bring_in', 'complete_bet_or_raise_to',
       'select_runout_count', 'show_or_muck_hole_cards', 'kill_hand', 'push_chips', 'pull_chips', 'no_operate']
CAN = {
    'post_ante': 'can_post_ante', 'collect_bets': 'can_collect_bets',
    'post_blind_or_straddle': 'can_post_blind_or_straddle', 'burn_card': 'can_burn_card', 'deal_hole': 'can_deal_hole',
    'deal_board': 'can_deal_board', 'stand_pat_or_discard': 'can_stand_pat_or_discard', 'fold': 'can_fold',
    'check_or_call': 'can_check_or_call', 'post_bring_in': 'can_post_bring_in',
    'complete_bet_or_raise_to': 'can_complete_bet_or_raise_to', 'select_runout_count': 'can_select_runout_count',
    'show_or_muck_hole_cards': 'can_show_or_muck_hole_cards', 'kill_hand': 'can_kill_hand',
    'push_chips': 'can_push_chips', 'pull_chips': 'can_pull_chips', 'no_operate': 'can_no_operate',
}
VERIFY = {
    'post_ante': 'verify_ante_posting', 'collect_bets': 'verify_bet_collection',
    'post_blind_or_straddle': 'verify_blind_or_straddle_posting', 'burn_card': 'verify_card_burning',
    'deal_hole': 'verify_hole_dealing', 'deal_board': 'verify_board_dealing',
    'stand_pat_or_discard': 'verify_standing_pat_or_discarding', 'fold': 'verify_folding',
    'check_or_call': 'verify_checking_or_calling', 'post_bring_in': 'verify_bring_in_posting',
    'complete_bet_or_raise_to': 'verify_completion_betting_or_raising_to',
    'select_runout_count': 'verify_runout_count_selection',
    'show_or_muck_hole_cards': 'verify_hole_cards_showing_or_mucking', 'kill_hand': 'verify_hand_killing',
    'push_chips': 'verify_chips_pushing', 'pull_chips': 'verify_chips_pulling', 'no_operate': 'verify_no_operation',
}


def A(p=0, has=False, amt=0, mode='default', n=0, cards=(), b=False):
    return {'p': p, 'has': has, 'amt': amt, 'mode': mode, 'n': n, 'cards': list(cards), 'b': b}


NOARGS = A()


def unchip(v):
    """integer units back to the chip type of the run"""
    if pk.Units.den == 1:
        return v
    return pk.Units.make(v)


def pyargs(op: str, a: dict):
    """the positional Python arguments that the argument record a denotes for operation op"""
    p = None if a['p'] == 0 else a['p'] - 1
    if a['mode'] == 'cards':
        cards = tuple(int_card(c) for c in a['cards'])
    elif a['mode'] == 'count':
        cards = a['n']
    else:
        cards = None
    if op in ('post_ante', 'post_blind_or_straddle', 'kill_hand', 'pull_chips'):
        return (p,)
    if op in ('collect_bets', 'fold', 'check_or_call', 'post_bring_in', 'push_chips', 'no_operate'):
        return ()
    if op == 'burn_card':
        return (cards,)
    if op == 'deal_hole':
        return (cards, p)
    if op == 'deal_board':
        return (cards,)
    if op == 'stand_pat_or_discard':
        return (tuple(int_card(c) for c in a['cards']),)
    if op == 'complete_bet_or_raise_to':
        return (unchip(a['amt']) if a['has'] else None,)
    if op == 'select_runout_count':
        return (a['amt'] if a['has'] else None, p)
    if op == 'show_or_muck_hole_cards':
        if a['mode'] == 'bool':
            return (a['b'], p)
        if a['mode'] == 'cards':
            return (cards, p)
        return (None, p)
    raise KeyError(op)


def obs_pots(st: State):
    return [{'raked': chip(p.raked_amount), 'unraked': chip(p.unraked_amount), 'players': [i + 1 for i in p.player_indices]}
            for p in st.pots]


def n1(v):
    """None -> -1 (JSON null is not supported by the TLC Json module)"""
    return -1 if v is None else v


def view(st: State) -> dict:
    """what the public read-only properties of the State report (bound to the model by TraceOps!ViewOK).  A property that
    raises is recorded as -99: TLC then reports the disagreement (reading a property never raises in the model)"""
    def safe(fn, conv):
        try:
            return conv(fn())
        except BaseException:  # noqa: BLE001
            return -99

    def c1(v):
        return -1 if v is None else chip(v)

    def p1(v):
        return 0 if v is None else v + 1
    v = {
        'actor': safe(lambda: st.actor_index, p1), 'turn': safe(lambda: st.turn_index, p1),
        'call': safe(lambda: st.checking_or_calling_amount, c1),
        'minto': safe(lambda: st.min_completion_betting_or_raising_to_amount, c1),
        'potto': safe(lambda: st.pot_completion_betting_or_raising_to_amount, c1),
        'maxto': safe(lambda: st.max_completion_betting_or_raising_to_amount, c1),
        'dealee': safe(lambda: st.hole_dealee_index, p1), 'drawer': safe(lambda: st.stander_pat_or_discarder_index, p1),
        'shower': safe(lambda: st.showdown_index, p1),
        'boardcount': safe(lambda: st.board_count, int),
        'boards': safe(lambda: [pk.cards_int(st.get_board_cards(b)) for b in st.board_indices], list),
        'hands': [], 'canwin': [],
    }
    if st.showdown_indices or any(st.hand_killing_statuses):
        # evaluated hands exist / do not exist (per player, board, hand type), and who can still win: at showdowns only
        v['hands'] = safe(lambda: [[[st.get_hand(i, b, t) is not None for t in st.hand_type_indices] for b in st.board_indices]
                                   for i in st.player_indices], list)
        v['canwin'] = safe(lambda: [bool(st.statuses[i] and st.can_win_now(i)) for i in st.player_indices], list)
    return v


def observe(st: State, log_from: int):
    d = project(st, log_from)
    d['pots'] = obs_pots(st)
    d['total'] = chip(st.total_pot_amount)
    d['view'] = view(st)
    return d


def snapshot(st: State, op):
    return {'op': pk.op_rec(op), 'stacks': pk.chips(st.stacks), 'bets': pk.chips(st.bets), 'payoffs': pk.chips(st.payoffs),
            'pots': obs_pots(st)}


class filt:
    def __init__(self, werr):
        self.werr = werr

    def __enter__(self):
        self.cm = warnings.catch_warnings()
        self.cm.__enter__()
        warnings.simplefilter('error' if self.werr else 'ignore')

    def __exit__(self, *a):
        return self.cm.__exit__(*a)


def probe(st: State, op: str, a: dict, werr: bool):
    """one query (can_X) and one verifier call (verify_X) with the same arguments; neither is expected to change anything,
    the query is never expected to raise"""
    args = pyargs(op, a)
    try:
        with filt(werr):
            r = getattr(st, CAN[op])(*args)
        x = ''
    except BaseException as e:  # noqa: BLE001 - anything escaping a query is recorded, TLC rejects it
        r, x = False, type(e).__name__
    try:
        with filt(werr):
            getattr(st, VERIFY[op])(*args)
        v = ''
    except BaseException as e:  # noqa: BLE001
        v = type(e).__name__
    return {'op': op, 'a': a, 'r': bool(r), 'x': x, 'v': v}


def probes(st: State, universe, werr: bool):
    """ask every (op, args) of the universe; also report whether all that asking left the State (every field) unchanged"""
    d0 = digest(st)
    res = [probe(st, op, a, werr) for op, a in universe]
    try:
        list(st.get_dealable_cards())
        for k in (1, 3, 60):
            list(st.get_dealable_cards(k))
    except BaseException:  # noqa: BLE001
        pass
    return res, digest(st) == d0


def step(st: State, op: str, a: dict, werr: bool, probes=(), micro=True, psame=True):
    """perform one public call and record it"""
    d0 = digest(st)
    n0 = len(st.operations)
    mic = []
    Tracer.active = (lambda s, o: mic.append(snapshot(s, o))) if micro else None
    try:
        with filt(werr):
            if op == 'no_operate' and a.get('c'):
                st.no_operate(commentary=a['c'])         # a commentary line (hand histories write it as '# ...')
            else:
                getattr(st, op)(*pyargs(op, a))
        out = 'ok'
    except ValueError:
        out = 'ValueError'
    except UserWarning:
        out = 'UserWarning'
    except BaseException as e:  # noqa: BLE001
        out = 'Other:' + type(e).__name__
        import traceback
        tb = traceback.format_exc()[-1500:]
    finally:
        Tracer.active = None
    ev = {'op': op, 'a': a, 'out': out, 'probes': list(probes), 'micro': mic, 'same': digest(st) == d0, 'psame': psame}
    if out == 'ok' or not ev['same']:
        ev['post'] = observe(st, n0)      # also when a call that raised has changed the state: validation goes on from there
    else:
        ev['post'] = {}
    if out.startswith('Other:'):
        ev['tb'] = tb
        ev['ops_appended'] = [pk.op_rec(o) for o in st.operations[n0:]]
    return ev


def probe_only(probes, psame=True):
    return {'op': 'none', 'a': NOARGS, 'out': 'ok', 'probes': list(probes), 'micro': [], 'same': True, 'post': {}, 'psame': psame}
