"""The registry of property checks.  Each check is a function (run) -> None that adds parts to the run."""
from __future__ import annotations

import random

from . import games, walk, tlc
from . import trace_checks as T
from .runner import Run

FLOP = ['FT', 'NT', 'NS', 'PO', 'FO/8', 'NR']
STUD = ['F7S', 'F7S/8', 'FR']
DRAW = ['N2L1D', 'F2L3D', 'FB']
HILO = ['FO/8', 'F7S/8']

# per property: list of (batch name, hands quick, hands thorough, spec kwargs, policy kwargs)
PROFILES = {
    'C01': [
        ('all-variants', 260, 2600, dict(rake_p=0.45), dict(probe_level=0, illegal=0.05)),
        ('short-stacks-antes', 140, 1400, dict(stacks='short', ante_p=0.9, rake_p=0.3), dict(probe_level=0, illegal=0.0, fold=0.05)),
        ('custom-street-lists', 120, 1200, dict(custom=True), dict(probe_level=0, illegal=0.0, fold=0.06)),
        ('split-pots-boards', 160, 1600, dict(variants=HILO + ['PO', 'NT', 'FO/8'], stacks='mixed', boards=(1, 2, 2), mode='C'),
         dict(probe_level=0, illegal=0.0, fold=0.02, allin=0.15, runout=0.8)),
    ],
    'C02': [
        ('showdowns-multiway', 220, 2200, dict(stacks='short', variants=FLOP + STUD, ante_p=0.7),
         dict(probe_level=0, illegal=0.0, fold=0.04, allin=0.2, manual_show=0.2)),
        ('hi-lo', 120, 1200, dict(variants=HILO, stacks='mixed'), dict(probe_level=0, illegal=0.0, fold=0.03, manual_show=0.2)),
        ('boards-and-runouts', 100, 1000, dict(variants=['NT', 'PO', 'NS', 'FO/8'], stacks='short', mode='C', boards=(1, 2, 2)),
         dict(probe_level=0, illegal=0.0, fold=0.03, allin=0.25, runout=0.9)),
    ],
    'C03': [
        ('all-structures', 220, 2400, dict(), dict(probe_level=1, illegal=0.15, raise_=0.45, fold=0.1)),
        ('deep-raising', 100, 1200, dict(stacks='deep', variants=['NT', 'PO', 'FT', 'F7S', 'FR', 'FB', 'N2L1D']),
         dict(probe_level=1, illegal=0.1, raise_=0.6, fold=0.08)),
        ('short-all-ins', 120, 1200, dict(stacks='short', variants=['NT', 'PO', 'NS', 'N2L1D']),
         dict(probe_level=1, illegal=0.1, raise_=0.5, allin=0.3, fold=0.05)),
    ],
    'C06': [
        ('all-variants', 160, 1600, dict(), dict(probe_level=0, illegal=0.05, explicit_cards=0.35)),
        ('custom-street-lists', 100, 1000, dict(custom=True, stacks='deep'), dict(probe_level=0, illegal=0.0, fold=0.03, discard=0.9)),
        ('full-ring-stud-draw-no-folds', 60, 600, dict(variants=STUD + DRAW, stacks='deep', max_n=8),
         dict(probe_level=0, illegal=0.0, fold=0.0, raise_=0.1, explicit_cards=0.2, discard=0.95)),
        ('unknown-cards', 60, 600, dict(variants=['NT', 'PO', 'FT', 'F2L3D', 'FB'], no_autos=('Hole cards showing or mucking',)),
         dict(probe_level=0, illegal=0.0, unknown_cards=0.3, fold=0.3)),
        ('partial-shows-all-in', 100, 1000, dict(variants=FLOP + STUD, mode='C', stacks='short', no_autos=('Hole cards showing or mucking',)),
         dict(probe_level=0, illegal=0.0, fold=0.03, allin=0.3, partial_show=0.6)),
    ],
    'C07': [
        ('all-variants-random-automation', 300, 3000, dict(), dict(probe_level=0, illegal=0.1)),
        ('short-stacks-random-automation', 150, 1500, dict(stacks='short', ante_p=0.8), dict(probe_level=0, illegal=0.05, allin=0.2)),
        ('custom-street-lists', 150, 1500, dict(custom=True), dict(probe_level=0, illegal=0.05)),
    ],
    'C08': [
        ('all-variants-full-universe', 200, 2000, dict(), dict(probe_level=2, illegal=0.45)),
    ],
    'C10': [
        ('all-variants', 200, 2000, dict(), dict(probe_level=0, illegal=0.05, explicit_player=0.6, multi_card=0.5)),
        ('stud-draw-full-ring', 80, 800, dict(variants=STUD + DRAW, max_n=8, stacks='deep'),
         dict(probe_level=0, illegal=0.0, fold=0.02, raise_=0.1, discard=0.9)),
        ('custom-street-lists', 220, 2200, dict(custom=True, stacks='deep'),
         dict(probe_level=0, illegal=0.03, fold=0.03, raise_=0.1, discard=0.9, explicit_player=0.6, multi_card=0.5)),
    ],
    'C12': [
        ('deep-showdowns', 220, 2200, dict(stacks='deep'), dict(probe_level=0, illegal=0.0, fold=0.03, raise_=0.2, manual_show=0.1)),
        ('side-pots', 120, 1200, dict(stacks='mixed', variants=FLOP + STUD), dict(probe_level=0, illegal=0.0, fold=0.03, allin=0.15, manual_show=0.1)),
        ('hi-lo-boards-runouts', 140, 1400, dict(variants=['FO/8', 'FO/8', 'PO', 'NT'], stacks='mixed', boards=(1, 2, 2), mode='C'),
         dict(probe_level=0, illegal=0.0, fold=0.02, allin=0.2, manual_show=0.05, runout=0.8)),
        ('explicit-and-partial-shows', 100, 1000, dict(variants=FLOP + STUD, stacks='short'),
         dict(probe_level=1, illegal=0.0, fold=0.03, allin=0.3, manual_show=0.3, partial_show=0.3)),
        ('custom-street-lists', 80, 800, dict(custom=True), dict(probe_level=0, illegal=0.0, fold=0.03)),
    ],
    'C13': [
        ('stud-openings', 160, 1600, dict(variants=STUD, stacks='mixed'), dict(probe_level=0, illegal=0.0, fold=0.15)),
        ('blind-layouts', 200, 2000, dict(variants=FLOP + DRAW, straddle_p=0.5, ante_p=0.5), dict(probe_level=0, illegal=0.0, fold=0.15)),
    ],
    'C14': [
        ('cash-all-ins', 200, 2000, dict(variants=['NT', 'PO', 'NS', 'FO/8', 'FT'], stacks='short', mode='C', boards=(1, 1, 2)),
         dict(probe_level=1, illegal=0.1, allin=0.3, fold=0.04, runout=0.8)),
        ('tournament-all-ins', 60, 600, dict(variants=['NT', 'PO', 'NS'], stacks='short', mode='T', boards=(1, 2)),
         dict(probe_level=1, illegal=0.1, allin=0.3, fold=0.04)),
    ],
}

NEEDS = {
    'C01': ['uncalled_bet_returned', 'two_pots_snapshot', 'rake_taken', 'op:PUSH', 'op:PULL', 'hand_finished'],
    'C02': ['push_side_pot', 'tie_split', 'push_second_hand_type', 'push_second_board'],
    'C03': ['refused:complete_bet_or_raise_to', 'short_all_in_raise_pending', 'bring_in_pending', 'op:CBR', 'op:F'],
    'C06': ['deck_replenished', 'discard', 'muck', 'op:CB'],
    'C07': ['cascade_3_kinds_in_one_call', 'hand_finished'],
    'C08': ['call_refused', 'probe_no'],
    'C10': ['discard', 'op:HD', 'op:BD', 'op:CB', 'op:SD'],
    'C12': ['muck', 'op:HK', 'op:SM'],
    'C13': ['op:BI', 'bring_in_pending'],
    'C14': ['runout_2plus_requested', 'runout_agreed_2plus', 'push_second_board'],
}


CUSTOM = {'spec_fn': 'custom'}


def trace_part(run: Run, prop: str):
    rng = random.Random(run.seed * 7919 + sum(map(ord, prop)))
    tid = 1
    for name, nq, nt, skw, pkw in PROFILES[prop]:
        n = nq if run.tier == 'quick' else nt
        skw = dict(skw)
        fn = games.random_custom_spec if skw.pop('custom', False) else None
        recs = T.gen_hands(run, rng, n, tid, skw, pkw, spec_fn=fn)
        tid += n
        res = T.validate(run, recs, f'{prop}_{name}', prop)
        for r in recs[:2]:
            run.sample(T.short_hand(r), limit=4)
        # distinct non-trivial: distinct (variant, n, operation kinds, outcome pattern) hands that finished
        for r in recs:
            if r['create']['out'] == 'ok' and r['steps']:
                key = (r['spec']['variant'], r['spec']['n'], r['spec']['mode'], tuple(sorted(r['spec']['autos'])),
                       tuple((ev['op'], ev['out'], ev['a']['amt'], ev['a']['p']) for ev in r['steps'] if ev['op'] != 'none'))
                run.nontrivial.add(hash(key))
    run.need(*NEEDS.get(prop, []))
