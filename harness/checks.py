"""The registry of property checks.  Each check is a function (run) -> None that adds parts to the run."""
from __future__ import annotations

import random

from . import games, walk, tlc
from . import trace_checks as T
from .runner import Run

FLOP = ['FT', 'NT', 'NS', 'PO', 'FO/8', 'NR']
STUD = ['F7S', 'F7S/8', 'FR']
DRAW = ['N2L1D', 'F2L3D', 'FB']
HILO = ['FO/8', 'F7S/8']

# per property: list of (batch name, hands quick, hands thorough, spec kwargs, policy kwargs)
PROFILES = {
    'C01': [
        ('all-variants', 200, 2600, dict(rake_p=0.45), dict(probe_level=0, illegal=0.05)),
        ('short-stacks-antes', 140, 1400, dict(stacks='short', ante_p=0.9, rake_p=0.3), dict(probe_level=0, illegal=0.0, fold=0.05)),
        ('custom-street-lists', 120, 1200, dict(custom=True), dict(probe_level=0, illegal=0.0, fold=0.06)),
        # Fraction-valued chips: the engine divides pots exactly (no odd chips); units of 1/15120 chip
        ('fraction-chips', 80, 1200, dict(chips='fraction', rake_p=0.0, stacks='short', variants=FLOP + STUD + ['N2L1D'], boards=(1, 2, 2)),
         dict(probe_level=0, illegal=0.0, fold=0.03, allin=0.2, runout=0.7)),
        # float and Decimal chips (binary-exact values): the engine divides with `/`; every split over 2 boards x 2 hand types x
        # 2 winners is exact and is compared with the exact-division model; a hand that divides by 3, 5, 7 is left out (counted)
        ('float-chips', 40, 600, dict(chips='float', rake_p=0.0, stacks='short', variants=FLOP + STUD + ['N2L1D'], boards=(1, 2, 2)),
         dict(probe_level=0, illegal=0.0, fold=0.03, allin=0.2, runout=0.7)),
        ('decimal-chips', 40, 600, dict(chips='decimal', rake_p=0.0, stacks='short', variants=FLOP + STUD + ['N2L1D'], boards=(1, 2, 2)),
         dict(probe_level=0, illegal=0.0, fold=0.03, allin=0.2, runout=0.7)),
        # the known 'orphan pot' family on purpose: voluntary mucks and cash-game folds that leave a pot without contender
        ('orphan-pots-known-finding', 80, 800, dict(stacks='mixed', variants=FLOP + DRAW, no_autos=('Hole cards showing or mucking',)),
         dict(probe_level=0, illegal=0.0, fold=0.05, allin=0.15, manual_show=1.0, muck=0.85, allow_orphan=True)),
        ('split-pots-boards', 110, 1600, dict(variants=HILO + ['PO', 'NT', 'FO/8'], stacks='mixed', boards=(1, 2, 2), mode='C'),
         dict(probe_level=0, illegal=0.0, fold=0.02, allin=0.15, runout=0.8)),
        ('single-forced-bet-folded-to', 50, 500, dict(single_forced=True, rake_p=0.0), dict(probe_level=0, illegal=0.0, fold=0.7, raise_=0.1)),
    ],
    'C02': [
        ('showdowns-multiway', 160, 2200, dict(stacks='short', variants=FLOP + STUD, ante_p=0.7),
         dict(probe_level=0, illegal=0.0, fold=0.04, allin=0.2, manual_show=0.2)),
        ('hi-lo', 120, 1200, dict(variants=HILO, stacks='mixed'), dict(probe_level=0, illegal=0.0, fold=0.03, manual_show=0.2)),
        ('fraction-chips', 80, 1000, dict(chips='fraction', rake_p=0.0, stacks='short', variants=FLOP + STUD, boards=(1, 2, 2)),
         dict(probe_level=0, illegal=0.0, fold=0.03, allin=0.2, runout=0.7)),
        ('decimal-chips', 30, 500, dict(chips='decimal', rake_p=0.0, stacks='short', variants=FLOP + STUD, boards=(1, 2, 2)),
         dict(probe_level=0, illegal=0.0, fold=0.03, allin=0.2, runout=0.7)),
        ('orphan-pots-known-finding', 40, 600, dict(stacks='mixed', variants=FLOP + DRAW, no_autos=('Hole cards showing or mucking',)),
         dict(probe_level=0, illegal=0.0, fold=0.05, allin=0.15, manual_show=1.0, muck=0.85, allow_orphan=True)),
        ('boards-and-runouts', 80, 1000, dict(variants=['NT', 'PO', 'NS', 'FO/8'], stacks='short', mode='C', boards=(1, 2, 2)),
         dict(probe_level=0, illegal=0.0, fold=0.03, allin=0.25, runout=0.9)),
    ],
    'C03': [
        ('all-structures', 220, 2400, dict(), dict(probe_level=1, illegal=0.15, raise_=0.45, fold=0.1)),
        ('deep-raising', 100, 1200, dict(stacks='deep', variants=['NT', 'PO', 'FT', 'F7S', 'FR', 'FB', 'N2L1D']),
         dict(probe_level=1, illegal=0.1, raise_=0.6, fold=0.08)),
        ('short-all-ins', 120, 1200, dict(stacks='short', variants=['NT', 'PO', 'NS', 'N2L1D']),
         dict(probe_level=1, illegal=0.1, raise_=0.5, allin=0.3, fold=0.05)),
        # the same rules on Decimal- and float-valued chips: minimum raise, pot-limit maximum, call amounts computed in that type; the
        # questions step in sixteenths of a chip around every bound
        ('decimal-chips', 30, 400, dict(chips='decimal', rake_p=0.0), dict(probe_level=1, illegal=0.15, raise_=0.45, fold=0.1)),
        ('float-chips', 30, 400, dict(chips='float', rake_p=0.0), dict(probe_level=1, illegal=0.15, raise_=0.45, fold=0.1)),
    ],
    'C06': [
        ('all-variants', 160, 1600, dict(), dict(probe_level=0, illegal=0.05, explicit_cards=0.35)),
        ('custom-street-lists', 100, 1000, dict(custom=True, stacks='deep'), dict(probe_level=0, illegal=0.0, fold=0.03, discard=0.9)),
        ('full-ring-stud-draw-no-folds', 60, 600, dict(variants=STUD + DRAW, stacks='deep', max_n=8),
         dict(probe_level=0, illegal=0.0, fold=0.0, raise_=0.1, explicit_cards=0.2, discard=0.95)),
        ('deck-exactly-exhausted', 60, 600, dict(variants=['F2L3D', 'F2L3D', 'FB'], stacks='deep', max_n=6),
         dict(probe_level=0, illegal=0.0, fold=0.0, raise_=0.05, exhaust=True)),
        ('unknown-cards', 60, 600, dict(variants=['NT', 'PO', 'FT', 'F2L3D', 'FB'], no_autos=('Hole cards showing or mucking',)),
         dict(probe_level=0, illegal=0.0, unknown_cards=0.3, fold=0.3)),
        ('partial-shows-all-in', 100, 1000, dict(variants=FLOP + STUD, mode='C', stacks='short', no_autos=('Hole cards showing or mucking',)),
         dict(probe_level=0, illegal=0.0, fold=0.03, allin=0.3, partial_show=0.6)),
    ],
    'C07': [
        ('all-variants-random-automation', 300, 3000, dict(), dict(probe_level=0, illegal=0.1)),
        ('short-stacks-random-automation', 150, 1500, dict(stacks='short', ante_p=0.8), dict(probe_level=0, illegal=0.05, allin=0.2)),
        ('custom-street-lists', 150, 1500, dict(custom=True), dict(probe_level=0, illegal=0.05)),
        ('deck-exactly-exhausted', 60, 600, dict(variants=['F2L3D', 'F2L3D', 'FB'], stacks='deep', max_n=6),
         dict(probe_level=0, illegal=0.0, fold=0.0, raise_=0.05, exhaust=True)),
        ('single-forced-bet-folded-to', 60, 600, dict(single_forced=True, rake_p=0.0), dict(probe_level=0, illegal=0.05, fold=0.7, raise_=0.1)),
        ('cash-all-in-manual-showdown', 90, 900, dict(variants=['NT', 'PO', 'NS', 'FO/8'], stacks='short', mode='C', boards=(1, 1, 2),
                                                      no_autos=('Runout-count selection', 'Hole cards showing or mucking')),
         dict(probe_level=0, illegal=0.05, allin=0.35, fold=0.03, runout=0.6, muck=0.8, manual_show=0.9, muck_allin=True)),
    ],
    'C08': [
        ('all-variants-full-universe', 200, 2000, dict(), dict(probe_level=2, illegal=0.45)),
    ],
    'C10': [
        ('all-variants', 200, 2000, dict(), dict(probe_level=0, illegal=0.05, explicit_player=0.6, multi_card=0.5)),
        ('stud-draw-full-ring', 80, 800, dict(variants=STUD + DRAW, max_n=8, stacks='deep'),
         dict(probe_level=0, illegal=0.0, fold=0.02, raise_=0.1, discard=0.9)),
        ('custom-street-lists', 220, 2200, dict(custom=True, stacks='deep'),
         dict(probe_level=0, illegal=0.03, fold=0.03, raise_=0.1, discard=0.9, explicit_player=0.6, multi_card=0.5)),
        ('deck-exactly-exhausted', 60, 600, dict(variants=['F2L3D', 'F2L3D', 'FB'], stacks='deep', max_n=6),
         dict(probe_level=0, illegal=0.0, fold=0.0, raise_=0.05, exhaust=True)),
        # stud with two starting boards, full ring, nobody folding: the street the deck cannot cover goes to BOTH boards
        ('stud-two-boards-full-ring', 40, 400, dict(variants=STUD, stacks='deep', max_n=8, force_boards0=2, mode='C'),
         dict(probe_level=0, illegal=0.0, fold=0.0, raise_=0.05)),
    ],
    'C12': [
        ('deep-showdowns', 220, 2200, dict(stacks='deep'), dict(probe_level=0, illegal=0.0, fold=0.03, raise_=0.2, manual_show=0.1)),
        ('side-pots', 120, 1200, dict(stacks='mixed', variants=FLOP + STUD), dict(probe_level=0, illegal=0.0, fold=0.03, allin=0.15, manual_show=0.1)),
        ('hi-lo-boards-runouts', 100, 1400, dict(variants=['FO/8', 'FO/8', 'PO', 'NT'], stacks='mixed', boards=(1, 2, 2), mode='C'),
         dict(probe_level=0, illegal=0.0, fold=0.02, allin=0.2, manual_show=0.05, runout=0.8)),
        ('explicit-and-partial-shows', 100, 1000, dict(variants=FLOP + STUD, stacks='short'),
         dict(probe_level=1, illegal=0.0, fold=0.03, allin=0.3, manual_show=0.3, partial_show=0.3)),
        ('custom-street-lists', 80, 800, dict(custom=True), dict(probe_level=0, illegal=0.0, fold=0.03)),
    ],
    'C13': [
        ('stud-openings', 160, 1600, dict(variants=STUD, stacks='mixed'), dict(probe_level=0, illegal=0.0, fold=0.15)),
        ('blind-layouts', 200, 2000, dict(variants=FLOP + DRAW, straddle_p=0.5, ante_p=0.5), dict(probe_level=0, illegal=0.0, fold=0.15)),
    ],
    'C14': [
        ('cash-all-ins', 200, 2000, dict(variants=['NT', 'PO', 'NS', 'FO/8', 'FT'], stacks='short', mode='C', boards=(1, 1, 2)),
         dict(probe_level=1, illegal=0.1, allin=0.3, fold=0.04, runout=0.8)),
        ('tournament-all-ins', 60, 600, dict(variants=['NT', 'PO', 'NS'], stacks='short', mode='T', boards=(1, 2)),
         dict(probe_level=1, illegal=0.1, allin=0.3, fold=0.04)),
    ],
}

PROFILES['C11'] = [
    ('every-variant-betting-and-dealing', 360, 3600, dict(rake_p=0.0), dict(probe_level=1, illegal=0.1, raise_=0.45, fold=0.08)),
    ('every-variant-short-stacks-showdowns', 180, 1800, dict(rake_p=0.0, stacks='short'), dict(probe_level=1, illegal=0.05, raise_=0.5, allin=0.2, fold=0.04)),
    ('hand-history-variant-codes', 110, 1100, dict(rake_p=0.0, boards=(1,), via_phh=True, variants=['FT', 'NT', 'NS', 'PO', 'FO/8', 'F7S', 'F7S/8', 'FR', 'N2L1D', 'F2L3D', 'FB']),
     dict(probe_level=1, illegal=0.05, raise_=0.4, fold=0.08)),
    ('game-written-to-a-hand-history-and-read-back', 84, 840, dict(rake_p=0.0, boards=(1,), via_phh='written'),
     dict(probe_level=1, illegal=0.05, raise_=0.4, fold=0.08)),
]

NEEDS = {
    'C01': ['uncalled_bet_returned', 'two_pots_snapshot', 'rake_taken', 'op:PUSH', 'op:PULL', 'hand_finished',
            'hands_chip_type_fraction', 'hands_chip_type_float', 'hands_chip_type_decimal'],
    'C02': ['push_side_pot', 'tie_split', 'push_second_hand_type', 'push_second_board'],
    'C03': ['refused:complete_bet_or_raise_to', 'short_all_in_raise_pending', 'bring_in_pending', 'op:CBR', 'op:F'],
    'C06': ['deck_replenished', 'discard', 'muck', 'op:CB'],
    'C07': ['cascade_3_kinds_in_one_call', 'hand_finished'],
    'C08': ['call_refused', 'probe_no'],
    'C10': ['discard', 'op:HD', 'op:BD', 'op:CB', 'op:SD'],
    'C12': ['muck', 'op:HK', 'op:SM'],
    'C13': ['op:BI', 'bring_in_pending'],
    'C14': ['runout_2plus_requested', 'runout_agreed_2plus', 'push_second_board', 'runout_choice_after_a_board_street'],
}


CUSTOM = {'spec_fn': 'custom'}


def trace_part(run: Run, prop: str, env=None):
    rng = random.Random(run.seed * 7919 + sum(map(ord, prop)))
    tid = 1
    for name, nq, nt, skw, pkw in PROFILES[prop]:
        n = nq if run.tier == 'quick' else nt
        skw = dict(skw)
        fn = games.random_custom_spec if skw.pop('custom', False) else None
        recs = T.gen_hands(run, rng, n, tid, skw, pkw, spec_fn=fn)
        tid += n
        res = T.validate(run, recs, f'{prop}_{name}', prop, env=env)
        for r in recs[:2]:
            run.sample(T.short_hand(r), limit=4)
        # distinct non-trivial: distinct (variant, n, operation kinds, outcome pattern) hands that finished
        for r in recs:
            if r['create']['out'] == 'ok' and r['steps']:
                key = (r['spec']['variant'], r['spec']['n'], r['spec']['mode'], tuple(sorted(r['spec']['autos'])),
                       tuple((ev['op'], ev['out'], ev['a']['amt'], ev['a']['p']) for ev in r['steps'] if ev['op'] != 'none'))
                run.nontrivial.add(hash(key))
    if not run.rule:
        run.rule = ('states/transitions: TLC totals over the exhaustive instances of spec/MC.tla (every invariant of spec/MC.cfg evaluated in '
                    'every state) and over the trace validations; traces: hands of the real engine validated step by step (seeded random '
                    'walks per batch in `parts`, replayed model behaviours, the repository\'s own tests); evaluations: recorded calls + '
                    'queries judged by TLC; distinct_nontrivial: distinct (variant, players, mode, automation subset, call sequence with '
                    'arguments and outcomes) among the random-walk hands that were created successfully and made at least one call')
    run.assumptions = ['TLC 1.8 and the CommunityModules evaluate the specification correctly',
                       'the Python projection (harness/pk.py) renames and integer-encodes State fields faithfully; it carries no judgement',
                       'initial deck order and replenish shuffle are replaced by recorded / keyed deterministic functions (harness/pk.py)',
                       'situations listed in known_findings.json are reported as KNOWN-FINDING and not counted as violations']
    run.need(*NEEDS.get(prop, []))


# ---------------------------------------------------------------------------------------------------------------------
# twin runs (spec/TraceTwin.tla, spec/TraceCopy.tla)
# ---------------------------------------------------------------------------------------------------------------------
from . import twins  # noqa: E402


def _pairs(run, rng, n, maker, spec_kw, pol_kw, tid0=1, spec_fn=None, autos_fn=None):
    out = []
    tid = tid0
    tries = 0
    while len(out) < n and tries < 4 * n:
        tries += 1
        spec = (spec_fn or games.random_spec)(rng, **spec_kw)
        if autos_fn:
            spec['autos'] = autos_fn(rng)
        spec.setdefault('werr', True)
        pol = walk.Policy(**pol_kw)
        p = maker(tid, spec, rng, pol)
        if p is None:
            continue
        for side in ('A', 'B'):
            if side in p:
                T.mechanisms(run, p[side])
        run.nontrivial.add((spec['variant'], spec['n'], tuple(sorted(spec['autos'])), spec['seed']))
        out.append(p)
        tid += 1
    return out


ALL_AUTO_NAMES = [a.value for a in games.ALL_AUTOS]


def check_C09(run: Run):
    from . import mc
    mc.mc_part(run, 'C09')
    rng = random.Random(run.seed * 31 + 9)
    q = run.tier == 'quick'
    pol = dict(probe_level=0, probe_every=0.0, illegal=0.05, noop=0.03)
    # every variant, random subsets
    ps = _pairs(run, rng, 220 if q else 2500, twins.auto_pair, dict(), pol)
    twins.validate_pairs(run, ps, 'C09_all-variants-random-subsets', 'C09')
    run.sample({'autos': ps[0]['A']['spec']['autos'], 'automated': T.short_hand(ps[0]['A']), 'manual_twin': T.short_hand(ps[0]['B'])})
    # custom street lists
    ps = _pairs(run, rng, 80 if q else 800, twins.auto_pair, dict(), pol, spec_fn=games.random_custom_spec)
    twins.validate_pairs(run, ps, 'C09_custom-street-lists', 'C09')
    # draw games steered so that the deck is exactly empty when the next step is due
    ps = _pairs(run, rng, 60 if q else 600, twins.auto_pair, dict(variants=['F2L3D', 'F2L3D', 'FB'], stacks='deep', max_n=6),
                dict(pol, illegal=0.0, fold=0.0, raise_=0.05, exhaust=True))
    twins.validate_pairs(run, ps, 'C09_deck-exactly-exhausted', 'C09')
    # subset sweep on three families: quick = 96 seeded subsets, thorough = all 2048
    subsets = []
    if q:
        srng = random.Random(run.seed + 99)
        subsets = [[a for a in ALL_AUTO_NAMES if srng.random() < 0.5] for _ in range(60)]
        subsets += [[a] for a in ALL_AUTO_NAMES] + [[b for b in ALL_AUTO_NAMES if b != a] for a in ALL_AUTO_NAMES] + [[], ALL_AUTO_NAMES]
    else:
        for m in range(2048):
            subsets.append([a for j, a in enumerate(ALL_AUTO_NAMES) if m >> j & 1])
    it = iter(subsets * 3)
    fams = [['NT', 'PO'], ['F7S', 'FR'], ['F2L3D', 'FB']]
    ps = []
    tid = 1
    for fam in fams:
        for sub in subsets:
            spec = games.random_spec(rng, variants=fam, stacks='short', mode='C' if rng.random() < 0.6 else 'T', max_n=4)
            spec['autos'] = list(sub)
            spec['werr'] = True
            p = twins.auto_pair(tid, spec, rng, walk.Policy(**dict(pol, allin=0.2, fold=0.05)))
            if p:
                ps.append(p)
                tid += 1
                run.nontrivial.add((spec['variant'], spec['n'], tuple(sorted(spec['autos'])), spec['seed']))
    run.count('automation_subsets_swept', len({tuple(sorted(p['A']['spec']['autos'])) for p in ps}))
    twins.validate_pairs(run, ps, 'C09_subset-sweep', 'C09')
    run.rule = ('pairs (automated run, manual twin performing the automated kinds eagerly with default arguments) on the same deck and '
                'decisions; TLC validates both runs against the model and decides log equality and state equality after every '
                'decision; non-trivial = distinct (variant, players, automation subset, deck seed)')
    run.need('automation_subsets_swept', 'cascade_3_kinds_in_one_call', 'hand_finished')


def check_C15(run: Run):
    from . import mc
    mc.mc_part(run, 'C15')
    rng = random.Random(run.seed * 31 + 15)
    q = run.tier == 'quick'
    pol = dict(probe_level=0, probe_every=0.0, illegal=0.05, noop=0.03, partial_show=0.15)
    ps = _pairs(run, rng, 180 if q else 2000, twins.replay_pair, dict(), pol)
    twins.validate_pairs(run, ps, 'C15_log-replay', 'C15')
    ps2 = _pairs(run, rng, 60 if q else 600, twins.replay_pair, dict(), pol, spec_fn=games.random_custom_spec)
    twins.validate_pairs(run, ps2, 'C15_log-replay-custom-streets', 'C15')
    run.sample({'original': T.short_hand(ps[0]['A']), 'replay_of_its_log': T.short_hand(ps[0]['B'])})
    # copies
    recs = []
    tid = 1
    while len(recs) < (200 if q else 2000):
        spec = games.random_spec(rng)
        spec['werr'] = True
        r = twins.copy_hand(tid, spec, rng, walk.Policy(probe_level=0, probe_every=0.0, illegal=0.0))
        if r:
            recs.append(r)
            tid += 1
            run.count('copy_points')
            run.count('events_after_copy', len(r['steps']) - r['copyAt'])
            run.count('mirrored_events', sum(1 for ev in r['steps'] if ev.get('mirror')))
            run.nontrivial.add((spec['variant'], spec['n'], spec['seed'], r['copyAt']))
    res = tlc.validate_traces(recs, 'C15_copies', prop='C15', module='TraceCopy.tla', cfg='TraceCopy.cfg')
    run.add_tlc(res['states'], res['transitions'])
    run.traces += len(recs)
    run.evaluations += sum(len(r['steps']) for r in recs)
    by = {r['tid']: r for r in recs}
    nv = 0
    T.mark_orphans(res['mismatches'])
    for m in res['mismatches']:
        r = by[m['tid']]
        what = f"copy hand {m['tid']} step {m['step']} (copy taken after step {r['copyAt']}) clause {m['clause']} op {m['op']} {m['names']} {m['info'][:1000]}"
        if run.violation(T.signature(m), what, {'kind': 'copy', 'hand': T.short_hand(r, m['step']), 'copyAt': r['copyAt'],
                                                 'insts': [ev.get('inst') for ev in r['steps'][:m['step']]]}):
            nv += 1
    run.part('C15_copies', hands=len(recs), tlc_states=res['states'], mismatches=len(res['mismatches']), violations=nv)
    run.sample({'copy_after_step': recs[0]['copyAt'], 'hand': T.short_hand(recs[0]),
                'instance_of_each_step': [ev.get('inst') for ev in recs[0]['steps']]})
    run.rule = ('(a) pairs (hand, replay of its operation log on a fresh un-automated state): TLC validates both and decides log and '
                'final-state equality; (c) hands deep-copied at a random step and continued on both instances interleaved: TLC '
                'validates the acting instance and requires the other one unchanged (projection and digest over all fields)')
    run.need('copy_points', 'events_after_copy', 'mirrored_events', 'hand_finished')


def check_C12(run: Run):
    from . import mc
    mc.mc_part(run, 'C12')
    trace_part(run, 'C12')
    rng = random.Random(run.seed * 31 + 12)
    q = run.tier == 'quick'
    pol = dict(probe_level=0, probe_every=0.0, illegal=0.0, fold=0.03, raise_=0.2)
    ps = _pairs(run, rng, 100 if q else 1600, twins.show_pair, dict(stacks='deep'), pol)
    ps += _pairs(run, rng, 60 if q else 1000, twins.show_pair, dict(stacks='mixed', variants=FLOP + STUD), dict(pol, allin=0.15), tid0=5000)
    ps += _pairs(run, rng, 60 if q else 800, twins.show_pair, dict(variants=['FO/8', 'F7S/8', 'PO'], boards=(1, 2, 2), mode='C'), pol, tid0=10000)
    twins.validate_pairs(run, ps, 'C12_auto-vs-show-everything', 'C12')
    run.need('muck', 'op:HK')


PHH_VARIANTS = ['FT', 'NT', 'NS', 'PO', 'FO/8', 'F7S', 'F7S/8', 'FR', 'N2L1D', 'F2L3D', 'FB']


def check_C16(run: Run):
    rng = random.Random(run.seed * 31 + 16)
    q = run.tier == 'quick'
    pol = dict(probe_level=0, probe_every=0.0, illegal=0.0, noop=0.06, runout=0.0, partial_show=0.0,
               commentary=('a note', 'note #2 with a hash', "it's quoted", 'say "hi"', 'p1 cc', 'tabs\tand = signs'))
    ps = _pairs(run, rng, 260 if q else 3000, twins.phh_pair, dict(variants=PHH_VARIANTS, boards=(1,)), pol)
    for p in ps:
        run.count('partial_history' if p['A']['create']['post'] and not p['A'].get('finished') else 'terminal_history')
    twins.validate_pairs(run, ps, 'C16_round-trip-and-replay', 'C16')
    ps2 = _pairs(run, rng, 120 if q else 1200, twins.phh_pair, dict(variants=PHH_VARIANTS, boards=(1,), stacks='short', ante_p=0.9),
                 dict(pol, fold=0.05, allin=0.2), tid0=5000)
    twins.validate_pairs(run, ps2, 'C16_short-stacks-antes', 'C16')
    run.sample({'phh_text': ps[0].get('text'), 'original_hand': T.short_hand(ps[0]['A'])})
    run.rule = ('pairs (hand played on the engine, replay of the history written from it and loaded back) over the 11 PHH variants, '
                'terminal and cut hands, int chips; TLC validates the original against the model and decides equality of the PHH '
                'actions (Notation!PhhActions), cards, stacks and payoffs; text idempotence and field equality are byte/object '
                'comparisons made by the harness and required TRUE by TLC (not decided by the specification)')
    run.need('partial_history', 'terminal_history', 'discard', 'op:BI')


def check_C11(run: Run):
    # the model is instantiated with the SPECIFICATION's record of each variant (spec/Variants.tla), not with the configuration
    # read from the implementation; plus the direct comparison of the created configuration with that record
    trace_part(run, 'C11', env={'CFGSRC': 'spec'})
    missing = [v for v in games.VARIANTS if not run.mech.get('variant:' + v)]
    if missing:
        from .runner import Vacuous
        raise Vacuous(f'variants never played: {missing}')
    run.need('code-written')
    run.rule += ' every hand is validated against the model instantiated with Variants!Def(name, small bet, big bet)'


ACPC_AUTOS = ['Ante posting', 'Bet collection', 'Blind or straddle posting', 'Hole cards showing or mucking', 'Runout-count selection',
              'Hand killing', 'Chips pushing', 'Chips pulling']


def _acpc_spec(rng, **kw):
    spec = games.random_spec(rng, variants=kw.get('variants', ['NT', 'NT', 'FT']), boards=(1,), max_n=6, ante_p=0.0, straddle_p=0.0,
                             rake_p=0.0, autos=ACPC_AUTOS)
    s = rng.choice([10, 20, 50, 100, 200]) * spec['bb'] // 2
    spec['stacks'] = [s] * spec['n']
    spec['blinds'] = [spec['blinds'][0], spec['blinds'][1]] + [0] * (spec['n'] - 2)
    spec['werr'] = False
    return spec


def check_C17(run: Run):
    rng = random.Random(run.seed * 31 + 17)
    q = run.tier == 'quick'
    pol = dict(probe_level=0, probe_every=0.0, illegal=0.0, noop=0.0, runout=0.0, partial_show=0.0, explicit_cards=0.0, raise_=0.4, fold=0.1)
    ps = _pairs(run, rng, 260 if q else 3000, twins.acpc_pair, dict(), pol, spec_fn=_acpc_spec)
    ps += _pairs(run, rng, 100 if q else 1000, twins.acpc_pair, dict(), dict(pol, fold=0.03, raise_=0.5), spec_fn=_acpc_spec, tid0=5000)
    for p in ps:
        run.count('viewer_seats', len(p['views']))
        run.count('protocol_messages', sum(len(v['msgs']) for v in p['views']))
        if p['parsed']:
            run.count('parsed_back')
        if p['cut']:
            run.count('cut_mid_hand')
        if p['pluribus']['present']:
            run.count('pluribus_lines')
    twins.validate_pairs(run, ps, 'C17_protocol-output-and-parse-back', 'C17')
    run.sample({'hand': T.short_hand(ps[0]['A']), 'seat_1_messages': ps[0]['views'][0]['msgs'][:3] if ps[0]['views'] else []})
    run.rule = ('fixed-limit and no-limit hold\'em hands, 2-6 players, equal stacks, complete or cut before a betting action; every '
                'viewer seat; the produced lines are tokenised syntactically and TLC compares them with Notation!AcpcMessages / '
                'PluribusState of the operation log of the validated original hand; Pluribus lines are parsed back and the replay '
                'compared (betting actions, stacks, board); exact punctuation beyond the token structure is not re-specified')
    run.need('parsed_back', 'cut_mid_hand', 'pluribus_lines', 'muck', 'op:CBR')


def _site_spec(rng, **kw):
    spec = games.random_spec(rng, variants=['NT'], boards=(1,), max_n=9, ante_p=0.0, straddle_p=0.0, rake_p=0.0, autos=[a.value for a in games.ALL_AUTOS],
                             mode='C')
    spec['blinds'] = [1, 2] + [0] * (spec['n'] - 2)
    spec['sb'] = spec['bb'] = 2
    big = 25 if rng.random() < 0.4 else 1           # stacks in the thousands (thousands separators in the logs)
    spec['stacks'] = [big * rng.choice([rng.randint(5, 40), rng.randint(40, 400)]) for _ in range(spec['n'])]
    spec['werr'] = False
    return spec


def check_C20(run: Run):
    from . import sites
    rng = random.Random(run.seed * 31 + 20)
    q = run.tier == 'quick'
    pol = dict(probe_level=0, probe_every=0.0, illegal=0.0, noop=0.0, runout=0.0, partial_show=0.0, explicit_cards=0.0)
    ps = _pairs(run, rng, 240 if q else 3000, twins.site_pair, dict(), dict(pol, raise_=0.35, fold=0.22), spec_fn=_site_spec)
    ps += _pairs(run, rng, 240 if q else 3000, twins.site_pair, dict(), dict(pol, raise_=0.4, fold=0.06, allin=0.15), spec_fn=_site_spec, tid0=10000)
    for p in ps:
        run.count('site:' + p['site'])
        if p['parsed']:
            run.count('imported_and_replayed')
        if any(ev['op'] == 'show_or_muck_hole_cards' for ev in p['A']['steps']) or any(
                o['k'] == 'SM' for ev in [p['A']['create']] + p['A']['steps'] for o in (ev.get('post') or {}).get('log', [])):
            run.count('hands_with_showdown')
    twins.validate_pairs(run, ps, 'C20_render-import-replay', 'C20')
    run.sample({'site': ps[0]['site'], 'log_text': ps[0]['text'], 'source_hand': T.short_hand(ps[0]['A'])})
    run.rule = ('no-limit hold\'em hands (2-9 seats, any button seat, folds/calls/raises/all-ins, showdown or not) played on the engine '
                'and validated against the model, rendered in each of the six site formats by the harness\' renderers (trusted base: '
                'written from public knowledge of the formats, emitting only constructs the importers\' patterns name), imported, '
                'replayed; TLC decides equality of betting actions in raise-to form, board, stacks and payoffs and requires the '
                'observed facts (one hand, players in position order, seats, blinds, stacks, unknown game reported) to be true. '
                'iPoker logs carry no show lines: rendered for hands without showdown only')
    run.need(*['site:' + s for s in sites.RENDER], 'imported_and_replayed', 'hands_with_showdown')
