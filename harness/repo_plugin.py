"""pytest plugin (driver D-repo): while the repository's own tests run, record every hand they play on pokerkit.State as a
trace for spec/TraceHands.tla.  Loaded with `-p harness.repo_plugin` and PYTHONPATH=/verif; nothing is added to /repo.
The tests' assertions look at final stacks; the traces let TLC judge every intermediate state of the same hands.

Only the standard library and the harness' own projection are used (runs under the repository's interpreter)."""
from __future__ import annotations

import json
import math
import os
import sys
import warnings

os.environ['POKERKIT_VERIF_TRACE'] = '1'
from . import pk, play, games  # noqa: E402
from .pk import State, Card  # noqa: E402
from .play import A, NOARGS  # noqa: E402

OUT = os.environ.get('VERIF_REPO_TRACES', '/tmp/repo_traces.ndjson')
RECORDS = {}
ORDER = []
DEPTH = {'n': 0}
SKIPPED = {'n': 0, 'why': {}}


def skip(st, why):
    RECORDS.pop(id(st), None)
    SKIPPED['n'] += 1
    SKIPPED['why'][why] = SKIPPED['why'].get(why, 0) + 1


def cards_arg(v):
    """a cards-like argument -> (mode, n, cards)"""
    if v is None:
        return 'default', 0, []
    if isinstance(v, int) and not isinstance(v, bool):
        return 'count', v, []
    return 'cards', 0, [pk.card_int(c) for c in Card.clean(v)]


def arg_record(op, args, kwargs):
    kw = dict(kwargs)
    kw.pop('commentary', None)
    a = list(args)

    def get(i, name):
        if i < len(a):
            return a[i]
        return kw.get(name)
    if op in ('post_ante', 'post_blind_or_straddle', 'kill_hand', 'pull_chips'):
        p = get(0, 'player_index')
        return A(p=0 if p is None else p + 1)
    if op in ('collect_bets', 'fold', 'check_or_call', 'post_bring_in', 'push_chips', 'no_operate'):
        return NOARGS
    if op == 'burn_card':
        mode, n, cs = cards_arg(get(0, 'card'))
        return A(mode=mode, n=n, cards=cs)
    if op == 'deal_hole':
        mode, n, cs = cards_arg(get(0, 'cards'))
        p = get(1, 'player_index')
        return A(p=0 if p is None else p + 1, mode=mode, n=n, cards=cs)
    if op == 'deal_board':
        mode, n, cs = cards_arg(get(0, 'cards'))
        return A(mode=mode, n=n, cards=cs)
    if op == 'stand_pat_or_discard':
        v = get(0, 'cards')
        return A(cards=[pk.card_int(c) for c in Card.clean(v if v is not None else ())])
    if op == 'complete_bet_or_raise_to':
        v = get(0, 'amount')
        return NOARGS if v is None else A(has=True, amt=pk.chip(v))
    if op == 'select_runout_count':
        v = get(0, 'runout_count')
        p = get(1, 'player_index')
        return A(p=0 if p is None else p + 1, has=v is not None, amt=0 if v is None else v)
    if op == 'show_or_muck_hole_cards':
        v = get(0, 'status_or_hole_cards')
        p = get(1, 'player_index')
        pp = 0 if p is None else p + 1
        if isinstance(v, bool):
            return A(p=pp, mode='bool', b=v)
        if v is None:
            return A(p=pp)
        return A(p=pp, mode='cards', cards=[pk.card_int(c) for c in Card.clean(v)])
    raise KeyError(op)


def rake_params(st):
    """the rake function of the state as the model's parameters, or None when it is not of the parameterised family"""
    import functools
    from fractions import Fraction
    import pokerkit.utilities as pu
    r = st.rake
    if r is pu.rake:
        return {'num': 0, 'den': 1, 'cap': -1, 'nfnd': False}
    if isinstance(r, functools.partial) and r.func is pu.rake and not r.args:
        kw = dict(r.keywords)
        pct = Fraction(str(kw.pop('percentage', 0)))
        cap = kw.pop('cap', math.inf)
        nfnd = bool(kw.pop('no_flop_no_drop', False))
        if kw or pct.denominator > 10000:
            return None
        if cap != math.inf and cap != int(cap):
            return None
        return {'num': pct.numerator, 'den': pct.denominator, 'cap': -1 if cap == math.inf else int(cap), 'nfnd': nfnd}
    return None


def safe_snapshot(mic, s, o):
    try:
        mic.append(play.snapshot(s, o))
    except Exception:  # noqa: BLE001 - chips the harness cannot represent (infinite stacks): the hand is not recorded
        mic.append(None)


def install():
    orig_post = State.__post_init__

    def post_init(self, *a, **k):
        mic = []
        DEPTH['n'] += 1
        pk.Tracer.active = lambda s, o: safe_snapshot(mic, s, o) if s is self else None
        try:
            orig_post(self, *a, **k)
        finally:
            DEPTH['n'] -= 1
            pk.Tracer.active = None
        if DEPTH['n'] > 0:
            return                    # a state created inside another recorded call (hand-history replay inside an importer ...)
        try:
            if any(isinstance(x, float) and math.isinf(x) for x in self.starting_stacks):
                raise ValueError('infinite stack')
            rk = rake_params(self)
            if rk is None:
                raise ValueError('custom rake')
            if any(m is None for m in mic):
                raise ValueError('unrepresentable chips')
            if self.divmod is not __import__('pokerkit.utilities', fromlist=['divmod']).divmod:
                raise ValueError('custom divmod')
            variant = 'custom'
            cfg = pk.project_cfg(self, werr=False, rake=rk, extra={'deckcards': sorted(pk.card_int(c) for c in self.deck), 'variant': variant, 'sb': 0,
                                                         'bb': 0, 'deck': games.deck_name(self.deck)})
            rec = {'tid': len(ORDER) + 1, 'spec': {'variant': 'repo-test', 'n': self.player_count, 'autos': cfg['autos'],
                                                   'mode': 'T' if cfg['tournament'] else 'C', 'seed': 0, 'test': os.environ.get('PYTEST_CURRENT_TEST', '')},
                   'deck0': pk.Shuffles.last_deck, 'cfg': cfg, 'create': {'out': 'ok', 'post': play.observe(self, 0), 'micro': mic}, 'steps': []}
            rec['last_digest'] = pk.digest(self)
            RECORDS[id(self)] = (self, rec)
            ORDER.append(rec)
        except Exception as e:  # noqa: BLE001
            SKIPPED['n'] += 1
            SKIPPED['why'][type(e).__name__ + ':' + str(e)[:40]] = SKIPPED['why'].get(type(e).__name__ + ':' + str(e)[:40], 0) + 1
    State.__post_init__ = post_init

    def wrap(op):
        orig = getattr(State, op)

        def method(self, *args, **kwargs):
            ent = RECORDS.get(id(self))
            if ent is None or ent[0] is not self or DEPTH['n'] > 0:
                return orig(self, *args, **kwargs)
            rec = ent[1]
            if rec.get('dead'):
                return orig(self, *args, **kwargs)
            if rec.get('last_digest') is not None and pk.digest(self) != rec['last_digest']:
                # the test has assigned fields of the State directly (typically a hand-picked deck): that is no operation of
                # the engine.  The record ends here and a new one resumes from the state as it now is.
                try:
                    new = dict(rec, steps=[], resume=True, deck0=[], tid=len(ORDER) + 1)
                    cfg = dict(rec['cfg'])
                    piles = list(self.deck_cards) + [c for r in self.board_cards for c in r] + [c for h in self.hole_cards for c in h] \
                        + list(self.burn_cards) + list(self.mucked_cards) + [c for d in self.discarded_cards for c in d]
                    cfg['deckcards'] = sorted({pk.card_int(c) for c in piles if c})
                    new['cfg'] = cfg
                    new['create'] = {'out': 'ok', 'post': play.observe(self, 0), 'micro': []}
                    new.pop('last_digest', None)
                    RECORDS[id(self)] = (self, new)
                    ORDER.append(new)
                    rec = new
                    SKIPPED['why']['resumed after the test assigned state fields'] = SKIPPED['why'].get('resumed after the test assigned state fields', 0) + 1
                except Exception:  # noqa: BLE001
                    rec['dead'] = True
                    return orig(self, *args, **kwargs)
            try:
                a = arg_record(op, args, kwargs)
            except Exception:  # noqa: BLE001
                skip(self, 'unrepresentable arguments')
                rec['dead'] = True
                return orig(self, *args, **kwargs)
            d0 = pk.digest(self)
            n0 = len(self.operations)
            mic = []
            DEPTH['n'] += 1
            pk.Tracer.active = lambda s, o: safe_snapshot(mic, s, o) if s is self else None
            out = 'ok'
            try:
                return orig(self, *args, **kwargs)
            except ValueError:
                out = 'ValueError'
                raise
            except UserWarning:
                out = 'UserWarning'
                raise
            except BaseException as e:  # noqa: BLE001
                out = 'Other:' + type(e).__name__
                raise
            finally:
                DEPTH['n'] -= 1
                pk.Tracer.active = None
                try:
                    if any(m is None for m in mic):
                        raise ValueError('unrepresentable chips')
                    ev = {'op': op, 'a': a, 'out': out, 'probes': [], 'micro': mic, 'same': pk.digest(self) == d0, 'psame': True}
                    ev['post'] = play.observe(self, n0) if (out == 'ok' or not ev['same']) else {}
                    rec['steps'].append(ev)
                    rec['last_digest'] = pk.digest(self)
                except Exception:  # noqa: BLE001
                    rec['dead'] = True
        setattr(State, op, method)
    for op in play.OPS:
        wrap(op)


import random as _random
pk.Shuffles.rng = _random.Random(20240928)
install()


def pytest_sessionfinish(session, exitstatus):
    good = [r for r in ORDER if not r.get('dead') and r['steps']]
    for j, r in enumerate(good):
        r['tid'] = j + 1
        r.pop('last_digest', None)
    with open(OUT, 'w') as f:
        for r in good:
            f.write(json.dumps(r, separators=(',', ':')))
            f.write('\n')
    with open(OUT + '.meta', 'w') as f:
        json.dump({'hands': len(good), 'skipped': SKIPPED, 'all_states': len(ORDER)}, f)
