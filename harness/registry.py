"""property id -> check function"""
from __future__ import annotations

import json

from . import checks
from . import trace_checks as T
from .runner import Run


def _trace_only(prop):
    def fn(run: Run):
        from . import mc
        if prop in mc.MC_FOR:
            mc.mc_part(run, prop)
        checks.trace_part(run, prop)
        if prop in ('C01', 'C02', 'C03', 'C06', 'C07', 'C10', 'C13'):
            T.repo_part(run, prop)
    return fn


CHECKS = {p: _trace_only(p) for p in checks.PROFILES}
from . import hands_check  # noqa: E402
CHECKS['C04'] = hands_check.check_C04
CHECKS['C05'] = hands_check.check_C05
CHECKS['C09'] = checks.check_C09
CHECKS['C15'] = checks.check_C15
CHECKS['C12'] = checks.check_C12
CHECKS['C16'] = checks.check_C16
CHECKS['C11'] = checks.check_C11
CHECKS['C17'] = checks.check_C17
CHECKS['C20'] = checks.check_C20
from . import analysis_check  # noqa: E402
CHECKS['C18'] = analysis_check.check_C18
from . import values_check  # noqa: E402
CHECKS['C19'] = values_check.check_C19


def replay(pid: str, path: str) -> int:
    with open(path) as f:
        doc = json.load(f)
    rp = doc['replay']
    run = Run(pid, 'quick', 0)
    if rp.get('kind') == 'hand':
        rec = T.replay_record(rp['record'])
        T.validate(run, [rec], f'replay_{pid}', pid, jobs=1)
        return 1 if run.violations else 0
    raise SystemExit(f'unknown replay kind {rp.get("kind")}')
