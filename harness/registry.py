"""property id -> check function"""
from __future__ import annotations

import json

from . import checks
from . import trace_checks as T
from .runner import Run


def _trace_only(prop):
    def fn(run: Run):
        from . import mc
        if prop in mc.MC_FOR:
            mc.mc_part(run, prop)
        checks.trace_part(run, prop)
        if prop in ('C01', 'C02', 'C03', 'C06', 'C07', 'C10', 'C13'):
            T.repo_part(run, prop)
    return fn


CHECKS = {p: _trace_only(p) for p in checks.PROFILES}
from . import hands_check  # noqa: E402
CHECKS['C04'] = hands_check.check_C04
CHECKS['C05'] = hands_check.check_C05
CHECKS['C09'] = checks.check_C09
CHECKS['C15'] = checks.check_C15
CHECKS['C12'] = checks.check_C12
CHECKS['C16'] = checks.check_C16
CHECKS['C11'] = checks.check_C11
CHECKS['C17'] = checks.check_C17
CHECKS['C20'] = checks.check_C20
from . import analysis_check  # noqa: E402
CHECKS['C18'] = analysis_check.check_C18
from . import values_check  # noqa: E402
CHECKS['C19'] = values_check.check_C19


def replay(pid: str, path: str) -> int:
    """re-run the history / pair / item / behaviour of a replay file on the current tree and let TLC judge it again"""
    with open(path) as f:
        doc = json.load(f)
    rp = doc['replay']
    run = Run(pid, 'quick', 0)
    kind = rp.get('kind')
    if kind == 'hand':
        rec = T.replay_record(rp['record'])
        T.validate(run, [rec], f'replay_{pid}', pid, jobs=1)
    elif kind in ('pair', 'copy'):
        # the first run of the pair, re-executed call by call and validated as a hand (the relation itself is re-decided by
        # re-running the check with the seed recorded in the evidence)
        rec = T.replay_record(rp['record']) if 'record' in rp else None
        if rec is None:
            raise SystemExit('this replay file carries no call record')
        T.validate(run, [rec], f'replay_{pid}', pid, jobs=1)
    elif kind == 'item':
        from .items import run_items
        print('re-judging the recorded question/answer with TLC (the answer is the one recorded when the violation was found):')
        run_items(run, [rp['item']], f'replay_{pid}', jvms=1, workers=1)
    elif kind == 'mc-replay':
        from . import mc
        inst = {'cfgs': [{'cfg': rp['cfg'], 'decks': [rp['deck']]}]}
        beh = dict(rp['behaviour'], cid=1, did=1)
        rec, followed = mc.replay_behaviour(1, inst, beh)
        print('the code follows the behaviour:', followed)
        T.validate(run, [rec], f'replay_{pid}', pid, jobs=1)
        if not followed:
            run.violation('spec-behaviour-not-followed', 'the behaviour of the model is not a behaviour of the code', rp)
    elif kind == 'mc':
        print('a violated model invariant: see', rp.get('log'), '- re-run ./check', pid)
        return 1
    else:
        raise SystemExit(f'unknown replay kind {kind}')
    return 1 if run.violations else 0
