"""Pairs of related executions of the real code for spec/TraceTwin.tla (C09, C12, C15, C16).  This module only runs the
code and records; the relation between the two runs is decided by TLC."""
from __future__ import annotations

import copy
import random

from . import pk, play, games, walk, tlc
from .play import A, NOARGS
from .runner import Run

AUTO_OPS = [
    ('post_ante', 'Ante posting'), ('collect_bets', 'Bet collection'), ('post_blind_or_straddle', 'Blind or straddle posting'),
    ('burn_card', 'Card burning'), ('deal_hole', 'Hole dealing'), ('deal_board', 'Board dealing'),
    ('select_runout_count', 'Runout-count selection'), ('show_or_muck_hole_cards', 'Hole cards showing or mucking'),
    ('kill_hand', 'Hand killing'), ('push_chips', 'Chips pushing'), ('pull_chips', 'Chips pulling'),
]


def new_record(tid, spec):
    """create a state from spec -> (state or None, record with cfg/create filled in)"""
    werr = spec.get('werr', True)
    mic = []
    pk.Tracer.active = lambda s, o: mic.append(play.snapshot(s, o))
    try:
        with play.filt(werr):
            st = games.create(spec)
        out = 'ok'
    except ValueError:
        st, out = None, 'ValueError'
    except BaseException as e:  # noqa: BLE001
        st, out = None, 'Other:' + type(e).__name__
    finally:
        pk.Tracer.active = None
    rec = {'tid': tid, 'spec': spec, 'deck0': pk.Shuffles.last_deck, 'steps': []}
    if st is None:
        rec['cfg'] = {}
        rec['create'] = {'out': out, 'post': {}, 'micro': []}
        return None, rec
    rec['cfg'] = pk.project_cfg(st, werr=werr, rake=spec.get('rake'),
                                extra={'deckcards': sorted(pk.card_int(c) for c in st.deck), 'variant': spec['variant'], 'sb': pk.chip(spec.get('sb', 0)), 'bb': pk.chip(spec.get('bb', 0)), 'deck': games.deck_name(st.deck)})
    rec['create'] = {'out': 'ok', 'post': play.observe(st, 0), 'micro': mic}
    return st, rec


def eager(st, rec, autos, werr, limit=400):
    """the manual twin's user: perform, with default arguments and as soon as it is available, every step whose kind is in
    autos"""
    k = 0
    while k < limit:
        k += 1
        for op, name in AUTO_OPS:
            if name in autos:
                with play.filt(werr):
                    can = getattr(st, play.CAN[op])()
                if can:
                    ev = play.step(st, op, NOARGS, werr, ())
                    rec['steps'].append(ev)
                    if ev['out'] != 'ok':
                        return False
                    break
        else:
            return True
    return False


def ok_calls(rec):
    return [(j + 1, ev['op'], ev['a']) for j, ev in enumerate(rec['steps']) if ev['op'] != 'none' and ev['out'] == 'ok']


def auto_pair(tid, spec, rng, pol):
    """A: the hand under spec['autos']; B: no automation, the user performs the automated kinds eagerly"""
    recA = walk.play_hand(tid, spec, rng, pol)
    if recA['create']['out'] != 'ok':
        return None
    werr = spec.get('werr', True)
    specB = dict(spec, autos=[])
    stB, recB = new_record(tid, specB)
    sync = []
    good = eager(stB, recB, spec['autos'], werr)
    sync.append([0, len(recB['steps'])])
    for ia, op, a in ok_calls(recA):
        if not good:
            break
        ev = play.step(stB, op, a, werr, ())
        recB['steps'].append(ev)
        if ev['out'] != 'ok':
            good = False
            break
        good = eager(stB, recB, spec['autos'], werr)
        sync.append([ia, len(recB['steps'])])
    return {'tid': tid, 'kind': 'auto', 'A': recA, 'B': recB, 'sync': sync,
            'flags': [['manual twin accepted every call of the automated run', bool(good)]]}


def op_call(o):
    """the public call (op name, argument record) that reproduces a logged operation"""
    r = pk.op_rec(o)
    k = r['k']
    p = r['p']
    if k == 'AP':
        return 'post_ante', A(p=p)
    if k == 'BC':
        return 'collect_bets', NOARGS
    if k == 'BP':
        return 'post_blind_or_straddle', A(p=p)
    if k == 'CB':
        return 'burn_card', A(mode='cards', cards=r['cards'])
    if k == 'HD':
        return 'deal_hole', A(p=p, mode='cards', cards=r['cards'])
    if k == 'BD':
        return 'deal_board', A(mode='cards', cards=r['cards'])
    if k == 'SD':
        return 'stand_pat_or_discard', A(cards=r['cards'])
    if k == 'F':
        return 'fold', NOARGS
    if k == 'CC':
        return 'check_or_call', NOARGS
    if k == 'BI':
        return 'post_bring_in', NOARGS
    if k == 'CBR':
        return 'complete_bet_or_raise_to', A(has=True, amt=r['amt'])
    if k == 'RS':
        return 'select_runout_count', A(p=p, has=r['amt'] > 0, amt=r['amt'])
    if k == 'SM':
        if r['cards']:
            return 'show_or_muck_hole_cards', A(p=p, mode='cards', cards=r['cards'])
        return 'show_or_muck_hole_cards', A(p=p, mode='bool', b=False)
    if k == 'HK':
        return 'kill_hand', A(p=p)
    if k == 'PUSH':
        return 'push_chips', NOARGS
    if k == 'PULL':
        return 'pull_chips', A(p=p)
    if k == 'NOP':
        return 'no_operate', NOARGS
    raise KeyError(k)


def replay_pair(tid, spec, rng, pol):
    """A: a hand; B: A's operation log applied, operation by operation with the logged players, amounts and cards, to a
    fresh un-automated state of the same game and deck"""
    werr = False     # known cards dealt explicitly that sit in the muck/burn are only warned about; the log is authoritative
    spec = dict(spec, werr=werr)
    stA_holder = {}
    recA = walk.play_hand(tid, spec, rng, pol, keep_state=stA_holder)
    if recA['create']['out'] != 'ok':
        return None
    stA = stA_holder['state']
    stB, recB = new_record(tid, dict(spec, autos=[]))
    good = True
    for o in stA.operations:
        op, a = op_call(o)
        ev = play.step(stB, op, a, werr, ())
        recB['steps'].append(ev)
        if ev['out'] != 'ok':
            good = False
            break
    lastA = max([j + 1 for j, ev in enumerate(recA['steps']) if ev['op'] != 'none' and ev['out'] == 'ok'], default=0)
    return {'tid': tid, 'kind': 'replay', 'A': recA, 'B': recB, 'sync': [[lastA, len(recB['steps'])]] if good else [],
            'flags': [['every logged operation was accepted by the fresh state', bool(good)]]}


def show_pair(tid, spec, rng, pol):
    """A: showdown decided by the engine's defaults (show iff can win, kill who cannot win); B: the same hand up to the first
    showdown decision, then every remaining player tables his whole hand.  Manual showdown and killing in both."""
    no = ('Hole cards showing or mucking', 'Hand killing', 'Runout-count selection')
    spec = dict(spec, autos=[a for a in spec['autos'] if a not in no])
    polA = copy.copy(pol)
    polA.manual_show = 0.0
    polA.partial_show = 0.0
    polA.illegal = 0.0
    polA.noop = 0.0
    polA.runout = 0.0
    polA.explicit_cards = 0.0
    polA.unknown_cards = 0.0
    recA = walk.play_hand(tid, spec, rng, polA)
    if recA['create']['out'] != 'ok':
        return None
    werr = spec.get('werr', True)
    calls = ok_calls(recA)
    shows = [x for x in calls if x[1] == 'show_or_muck_hole_cards']
    if not shows:
        return None
    stB, recB = new_record(tid, spec)
    good = True

    def kills():
        nonlocal good
        while good and stB.can_kill_hand():
            ev = play.step(stB, 'kill_hand', NOARGS, werr, ())
            recB['steps'].append(ev)
            good = ev['out'] == 'ok'
    for ia, op, a in calls:
        if op == 'show_or_muck_hole_cards':
            a = A(p=a['p'], mode='bool', b=True)
        elif op == 'kill_hand':
            continue            # B kills on its own account: with every hand tabled, whoever cannot win
        else:
            kills()
        if not good:
            break
        ev = play.step(stB, op, a, werr, ())
        recB['steps'].append(ev)
        if ev['out'] != 'ok':
            good = False
            break
    kills()
    # B may need kills/pushes/pulls that A did not need (or the other way round): finish B with defaults
    guard = 0
    while good and stB.status and guard < 200:
        guard += 1
        for op in ('kill_hand', 'push_chips', 'pull_chips', 'collect_bets', 'burn_card', 'deal_hole', 'deal_board'):
            if getattr(stB, play.CAN[op])():
                ev = play.step(stB, op, NOARGS, werr, ())
                recB['steps'].append(ev)
                good = ev['out'] == 'ok'
                break
        else:
            if stB.showdown_indices:
                ev = play.step(stB, 'show_or_muck_hole_cards', A(mode='bool', b=True), werr, ())
                recB['steps'].append(ev)
                good = ev['out'] == 'ok'
            else:
                break
    return {'tid': tid, 'kind': 'show', 'A': recA, 'B': recB, 'sync': [],
            'flags': [['the show-everything twin was playable to the end', bool(good and not stB.status)],
                      ['the automatic run finished', bool(recA.get('finished'))]]}


def validate_pairs(run: Run, pairs, name: str, prop: str, jobs=16, timeout=3000):
    from . import trace_checks as T
    res = tlc.validate_traces(pairs, name, prop=prop, module='TraceTwin.tla', cfg='TraceTwin.cfg', jobs=jobs, timeout=timeout)
    run.add_tlc(res['states'], res['transitions'])
    run.traces += 2 * len(pairs)
    steps = sum(len(p['A']['steps']) + len(p['B']['steps']) for p in pairs)
    run.evaluations += steps
    by_tid = {p['tid']: p for p in pairs}
    nv = 0
    T.mark_orphans(res['mismatches'])
    for m in res['mismatches']:
        p = by_tid[m['tid']]
        side = 'B' if m['step'] >= 1000 else 'A'
        what = (f"pair {m['tid']} ({p['kind']}) side {side} step {m['step'] % 1000} clause {m['clause']} op {m['op']} "
                f"names {m['names']} info {m['info'][:1200]}")
        rp = {'kind': 'pair', 'pair_kind': p['kind'], 'tid': m['tid'], 'clause': m['clause'],
              'A': T.short_hand(p['A']), 'B': T.short_hand(p['B']),
              'record': {'spec': p['A']['spec'], 'calls': [{'op': ev['op'], 'a': ev['a']} for ev in p['A']['steps'] if ev['op'] != 'none']}}
        if run.violation(T.signature(m), what, rp):
            nv += 1
    run.part(name, pairs=len(pairs), steps=steps, tlc_states=res['states'], mismatches=len(res['mismatches']), violations=nv,
             tlc_wall=round(res['wall'], 1))
    return res


def copy_hand(tid, spec, rng, pol, max_after=60):
    """a hand played up to a random point, deep-copied there, then original and copy operated on in an interleaved way"""
    holder = {}
    k = rng.randint(0, 25)
    rec = walk.play_hand(tid, spec, rng, pol, max_steps=k, keep_state=holder) if k else None
    if rec is None:
        stA, rec = new_record(tid, spec)
        if stA is None:
            return None
    elif rec['create']['out'] != 'ok':
        return None
    else:
        stA = holder['state']
    werr = spec.get('werr', True)
    # the copy is taken after the last recorded step (a probe-only record may close a finished hand)
    rec['steps'] = [ev for ev in rec['steps'] if ev['op'] != 'none']
    if any(ev['out'].startswith('Other:') for ev in rec['steps']):
        return None
    rec['copyAt'] = len(rec['steps'])
    if rec['copyAt'] == 0:
        # the model copies at a step: make the creation-time copy a no-op step
        rec['steps'].append(play.step(stA, 'no_operate', NOARGS, werr, ()))
        rec['copyAt'] = 1
    for ev in rec['steps']:
        ev.setdefault('inst', 'A')
        ev.setdefault('other', {})
        ev.setdefault('osame', True)
        ev.setdefault('mirror', False)
    stB = copy.deepcopy(stA)
    inst = {'A': stA, 'B': stB}
    n = 0
    while n < max_after and (stA.status or stB.status):
        n += 1
        mirror = rng.random() < 0.3 and pk.digest(stA) == pk.digest(stB)
        who = 'A' if mirror else rng.choice('AB')
        st = inst[who]
        if not st.status:
            who = 'B' if who == 'A' else 'A'
            st = inst[who]
            mirror = False
        try:
            moves = walk.legal_moves(st, rng, pol, werr)
        except Exception as e:  # noqa: BLE001 - one of the engine's own queries raised while the driver was choosing a move
            oth = inst['B' if who == 'A' else 'A']
            ev = play.step(st, 'no_operate', NOARGS, werr, [{'op': 'no_operate', 'a': NOARGS, 'r': False, 'x': 'query raised ' + type(e).__name__, 'v': ''}])
            ev.update(inst=who, mirror=False, osame=True, other=play.observe(oth, len(oth.operations)))
            rec['steps'].append(ev)
            return rec
        if not moves:
            break
        tot = sum(w for w, _, _ in moves)
        x = rng.random() * tot
        for w, op, a in moves:
            x -= w
            if x <= 0:
                break
        seq = [(who, False)] + ([('B', True)] if mirror else [])
        for w2, mir in seq:
            st = inst[w2]
            oth = inst['B' if w2 == 'A' else 'A']
            d0 = pk.digest(oth)
            ev = play.step(st, op, a, werr, ())
            ev['inst'] = w2
            ev['mirror'] = mir
            ev['osame'] = pk.digest(oth) == d0
            ev['other'] = play.observe(oth, len(oth.operations))
            rec['steps'].append(ev)
            if ev['out'].startswith('Other:'):
                return rec
    return rec


def raw_record(tid, st, spec, werr=False):
    """a hand record that is not validated step by step: the final state with its whole operation log"""
    rec = {'tid': tid, 'spec': spec, 'deck0': [], 'steps': [], 'raw': True}
    rec['cfg'] = pk.project_cfg(st, werr=werr, extra={'deckcards': sorted(pk.card_int(c) for c in st.deck), 'variant': spec.get('variant'), 'sb': pk.chip(spec.get('sb', 0)), 'bb': pk.chip(spec.get('bb', 0)), 'deck': games.deck_name(st.deck)})
    rec['create'] = {'out': 'ok', 'post': play.observe(st, 0), 'micro': []}
    return rec


def _decimal_twin(hh):
    """the same hand with its chips counted in hundredths: every chip value of the history / 100 as a Decimal"""
    import dataclasses
    import re
    from decimal import Decimal

    def d(v):
        return Decimal(int(v)) / 100
    ch = {}
    for f in ('antes', 'blinds_or_straddles', 'starting_stacks'):
        v = getattr(hh, f)
        if v is not None:
            ch[f] = [d(x) for x in v]
    for f in ('bring_in', 'small_bet', 'big_bet', 'min_bet'):
        v = getattr(hh, f)
        if v is not None:
            ch[f] = d(v)
    acts = []
    for a in hh.actions:
        m = re.match(r'^(p\d+ cbr )(\d+)(.*)$', a)
        acts.append(m.group(1) + str(d(m.group(2))) + m.group(3) if m else a)
    ch['actions'] = acts
    return dataclasses.replace(hh, **ch)


def phh_pair(tid, spec, rng, pol, cut_p=0.3, user_fields=True):
    """A: a hand played on the engine; B: the replay of the hand history written from it (dump -> load -> iterate)"""
    from pokerkit import HandHistory
    import warnings
    holder = {}
    spec = dict(spec, boards0=1, rake={'num': 0, 'den': 1, 'cap': -1, 'nfnd': False})
    max_steps = rng.randint(3, 40) if rng.random() < cut_p else 400
    recA = walk.play_hand(tid, spec, rng, pol, max_steps=max_steps, keep_state=holder)
    if recA['create']['out'] != 'ok' or 'state' not in holder:
        return None
    stA = holder['state']
    game = games.Last.game
    flags = []
    kw = {}
    if user_fields:
        kw = {'_seed': spec['seed'], '_tags': ['verif', 'x y'], '_ratio': 1.5, '_flag': True, '_off': False, '_zero': 0, '_note': "it's a 'quoted' #note",
              '_nested': {'a': 1, 'b c': [1, 2], 'off': False, 'zero': 0, 'empty': '', 'inner': {'x': False, 'y': [True, False]}},
              '_list_of_tables': [{'k': 1}, {'k': 0}], 'author': 'verif', 'hand': tid}
    stB = None
    try:
        with warnings.catch_warnings():
            warnings.simplefilter('ignore')
            hh = HandHistory.from_game_state(game, stA, **kw)
            text = hh.dumps()
            hh2 = HandHistory.loads(text)
            text2 = hh2.dumps()
            flags.append(['saving the loaded history again gives the identical text', text == text2])
            flags.append(['user-defined fields survive the round trip', hh2.user_defined_fields == hh.user_defined_fields])
            flags.append(['the loaded history has the same fields', all(getattr(hh, f) == getattr(hh2, f) for f in (
                'variant', 'antes', 'blinds_or_straddles', 'bring_in', 'small_bet', 'big_bet', 'min_bet', 'starting_stacks', 'actions',
                'ante_trimming_status', 'author', 'hand'))])
            for stB in hh2:
                pass
        flags.append(['the loaded history replays without error', True])
        if hh.actions and stB is not None and spec.get('chips') is None:
            # decimal chip values, and several hands in one file: the same hand counted in hundredths, written alone and as the
            # second hand of a two-hand file
            with warnings.catch_warnings():
                warnings.simplefilter('ignore')
                dec = _decimal_twin(hh)
                dtext = dec.dumps()
                flags.append(['decimal chips: saving the loaded history again gives the identical text', HandHistory.loads(dtext).dumps() == dtext])
                many = list(HandHistory.loads_all(HandHistory.dumps_all([hh, dec])))
                flags.append(['a two-hand file holds the two hands as they read alone',
                              len(many) == 2 and many[0].dumps() == text and many[1].dumps() == dtext])
                if len(many) == 2:
                    last = None
                    for last in many[1]:
                        pass
                    pushes = [o for o in stA.operations if type(o).__name__ == 'ChipsPushing']
                    # whole chips are divided with a remainder, decimal chips exactly: only undivided pots (one push per pot, to one
                    # player) must come out the same
                    divided = any(sum(1 for x in o.amounts if x) != 1 for o in pushes) or len({o.pot_index for o in pushes}) != len(pushes)
                    flags.append(['decimal chips: the hand read from the two-hand file replays to the same operations',
                                  [type(o).__name__ for o in last.operations] == [type(o).__name__ for o in stB.operations]])
                    if not divided:
                        flags.append(['decimal chips: the replay ends with the same stacks (in hundredths)',
                                      [x * 100 for x in last.stacks] == list(stB.stacks)])
        if not stA.status and hh.actions and stB is not None:
            # a history that leaves out the free checks is completed in the documented way: same final chips
            slim = HandHistory.loads(text)
            import re as _r
            bet = [0] * spec['n']
            keep = []
            ops = [pk.op_rec(o) for o in stA.operations]
            free = iter([o['amt'] == 0 for o in ops if o['k'] == 'CC'])
            dropped = 0
            for a in slim.actions:
                if _r.match(r'^p\d+ cc\b', a) and next(free, False):
                    dropped += 1
                    continue
                keep.append(a)
            if dropped:
                slim.actions = keep
                try:
                    last = None
                    with warnings.catch_warnings():
                        warnings.simplefilter('ignore')
                        for last in slim:
                            pass
                    same = list(last.stacks) == list(stB.stacks) and not last.status
                except Exception:  # noqa: BLE001
                    same = False
                flags.append(['a history with the free checks left out replays to the same final stacks', same])
        if not stA.status and hh.actions:
            # a history that cannot be applied is an error, not a silently shorter hand: one more action after the end
            import dataclasses as _dc
            bad = HandHistory.loads(text)
            bad.actions = list(bad.actions) + [rng.choice(['p1 cc', 'p2 f', 'd db 2c3c4c', 'p1 cbr 5'])]
            try:
                with warnings.catch_warnings():
                    warnings.simplefilter('ignore')
                    for _ in bad:
                        pass
                raised = False
            except ValueError:
                raised = True
            flags.append(['a history with an action after the end of the hand is reported as an error', raised])
    except Exception as e:  # noqa: BLE001
        import traceback
        tb = traceback.format_exc()
        if isinstance(e, (AssertionError, ZeroDivisionError)) and 'push_chips' in tb:
            # the known 'orphan pot' family reached through the replay's mechanical completion of a showdown
            flags.append(['orphan-pot: the replay ran into a pot without a contender', False])
        else:
            flags.append([f'the loaded history replays without error ({type(e).__name__}: {str(e)[:80]})', False])
    recA['steps'] = [ev for ev in recA['steps']]
    if stB is None:
        return {'tid': tid, 'kind': 'phh', 'A': recA, 'B': recA, 'sync': [], 'flags': flags}
    recB = raw_record(tid, stB, dict(spec, autos=[a.value for a in stB.automations]))
    return {'tid': tid, 'kind': 'phh', 'A': recA, 'B': recB, 'sync': [], 'flags': flags, 'text': text}


# ---------------------------------------------------------------------------------------------------------------------
# ACPC / Pluribus protocol (C17): purely syntactic tokenising of the produced lines; TLC compares with Notation.tla
# ---------------------------------------------------------------------------------------------------------------------
import re as _re

_TOK = _re.compile(r'f|c|r\d*|/')


def _cards(s):
    return [pk.RANKS.index(s[i]) * 4 + pk.SUITS.index(s[i + 1]) for i in range(0, len(s), 2)]


def _acts(s):
    out = []
    pos = 0
    for m in _TOK.finditer(s):
        if m.start() != pos:
            raise ValueError(f'untokenisable action string {s!r}')
        pos = m.end()
        t = m.group()
        if t[0] == 'r':
            out.append({'k': 'r', 'a': int(t[1:]) if len(t) > 1 else -1})
        else:
            out.append({'k': t, 'a': -1})
    if pos != len(s):
        raise ValueError(f'untokenisable action string {s!r}')
    return out


def _cardfield(s):
    holes, *boards = s.split('/')
    return [_cards(h) for h in holes.split('|')], [_cards(b) for b in boards]


def tokenise_acpc(direction, text):
    parts = text.strip().split(':')
    assert parts[0] == 'MATCHSTATE', text
    holes, boards = _cardfield(parts[4])
    act = _acts(parts[5])[0] if len(parts) > 5 else {'k': '', 'a': -1}
    return {'dir': 'S' if direction == 'S->' else 'C', 'acts': _acts(parts[3]), 'holes': holes, 'boards': boards, 'act': act,
            'pos': int(parts[1]), 'hand': int(parts[2])}


def acpc_pair(tid, spec, rng, pol):
    from pokerkit import HandHistory
    import dataclasses
    import warnings
    holder = {}
    recA = walk.play_hand(tid, spec, rng, pol, keep_state=holder)
    if recA['create']['out'] != 'ok' or 'state' not in holder:
        return None
    stA = holder['state']
    game = games.Last.game
    n = spec['n']
    nolimit = spec['variant'] == 'NT'
    flags = []
    ops = [pk.op_rec(o) for o in stA.operations]
    bet_idx = [j for j, r in enumerate(ops) if r['k'] in ('F', 'CC', 'CBR')]
    views = []
    plur = {'present': False, 'acts': [], 'holes': [], 'boards': [], 'payoffs': []}
    parsed = False
    recB = recA
    cut = 0
    try:
        with warnings.catch_warnings():
            warnings.simplefilter('ignore')
            # the hand carries its own number (ACPC logs count from 0) and the writers are asked with and without naming it
            num = rng.choice([0, 0, 1, tid, tid + 1000])
            named = rng.random() < 0.5
            hn = (num,) if named else ()
            hh = HandHistory.from_game_state(game, stA, hand=num)
            hh_view = hh
            terminal = not stA.status
            if bet_idx and (not terminal or rng.random() < 0.4):
                m = rng.randrange(len(bet_idx))
                cut = bet_idx[m]                 # keep the log records before the m-th betting action
                lines = [j for j, a in enumerate(hh.actions) if _re.match(r'^p\d+ (f|cc|cbr)', a)]
                hh_view = dataclasses.replace(hh, actions=list(hh.actions[:lines[m]]))
            elif not terminal:
                return None
            for seat in range(n):
                msgs = [tokenise_acpc(d, t) for d, t in hh_view.to_acpc_protocol(seat, *hn)]
                for mm in msgs:
                    if mm['pos'] != seat or mm['hand'] != num:
                        flags.append(['position and hand number are echoed in every message', False])
                    del mm['pos'], mm['hand']
                views.append({'seat': seat + 1, 'msgs': msgs})
            if nolimit and terminal:
                line = hh.to_pluribus_protocol(*hn)
                p = line.split(':')
                holes, boards = _cardfield(p[3])
                plur = {'present': True, 'acts': _acts(p[2]), 'holes': holes, 'boards': boards,
                        'payoffs': [int(x) for x in p[4].split('|')]}
                flags.append(['the Pluribus line names the hand and the players', p[0] == 'STATE' and int(p[1]) == num and
                              p[5].split('|') == [f'p{i + 1}' for i in range(n)]])
                if len(set(spec['stacks'])) == 1 and not any(spec['antes']):
                    hs = list(HandHistory.from_acpc_protocol(game, spec['stacks'][0], line, error_status=True))
                    flags.append(['the line parses back to exactly one hand', len(hs) == 1])
                    stB = None
                    for stB in hs[0]:
                        pass
                    recB = raw_record(tid, stB, dict(spec, autos=[a.value for a in stB.automations]))
                    parsed = True
                    flags.append(['the parsed-back hand produces the identical line', hs[0].to_pluribus_protocol(*hn) == line])
        flags.append(['protocol output was produced without error', True])
    except Exception as e:  # noqa: BLE001
        flags.append([f'protocol output was produced without error ({type(e).__name__}: {str(e)[:100]})', False])
    return {'tid': tid, 'kind': 'acpc', 'A': recA, 'B': recB, 'sync': [], 'flags': flags, 'views': views, 'pluribus': plur,
            'parsed': parsed, 'cut': cut, 'n': n, 'nolimit': nolimit}


# ---------------------------------------------------------------------------------------------------------------------
# C20: the hand rendered as a site log and imported back
# ---------------------------------------------------------------------------------------------------------------------
def site_pair(tid, spec, rng, pol, site=None):
    from pokerkit import HandHistory
    from . import sites
    import warnings
    site = site or rng.choice(list(sites.RENDER))
    holder = {}
    recA = walk.play_hand(tid, spec, rng, pol, keep_state=holder)
    if recA['create']['out'] != 'ok' or 'state' not in holder:
        return None
    stA = holder['state']
    if stA.status:
        return None
    n = spec['n']
    ops = [pk.op_rec(o) for o in stA.operations]
    went_to_showdown = any(o['k'] == 'SM' for o in ops)
    if site == 'ipoker' and went_to_showdown:
        site = rng.choice([s for s in sites.RENDER if s != 'ipoker'])      # no show lines in that format: fold-outs only
    # seats: increasing round the table, the button (last position; heads-up: the second player) where the site says
    free = sorted(rng.sample(range(1, 10), n))
    rot = rng.randrange(n)
    order = free[rot:] + free[:rot]                       # seat of position 0, 1, ... going round the table
    if n == 2:
        seats = [order[0], order[1]]
    else:
        seats = order
    names = rng.sample(sites.NAMES, n)
    hero = rng.randrange(n)
    h = sites.Hand({'final_stacks': list(stA.stacks)}, ops, n, [int(x) for x in stA.starting_stacks], seats, names, hero)
    if n >= 3 and site != 'ipoker' and rng.random() < 0.2:
        # dead button (iPoker marks the dealer on a player line: not expressible there): the button is on an empty seat between the last player and the small blind
        last, first = seats[n - 1], seats[0]
        between = [x for x in range(1, 10) if x not in seats and ((last < x < first) if last < first else (x > last or x < first))]
        if between:
            h.button_seat = rng.choice(between)
    sites.Fmt.commas = site != 'pokerstars' and rng.random() < 0.5
    text = sites.RENDER[site](h)
    sites.Fmt.commas = False
    flags = []
    recB = recA
    parsed = False
    try:
        with warnings.catch_warnings(record=True) as caught:
            warnings.simplefilter('always')
            hands = list(getattr(HandHistory, sites.IMPORT[site])(text))
        reports = [str(w.message) for w in caught if 'Unable to parse' in str(w.message)]
        flags.append([f'{site}: the log is imported as exactly one hand, nothing reported unparsable', len(hands) == 1 and not reports])
        if len(hands) == 1:
            hh = hands[0]
            flags.append([f'{site}: players in position order', list(hh.players or []) == names])
            flags.append([f'{site}: seats', list(hh.seats or []) == seats])
            flags.append([f'{site}: blinds', [int(x) for x in hh.blinds_or_straddles] == [int(x) for x in spec['blinds']]])
            flags.append([f'{site}: starting stacks', [int(x) for x in hh.starting_stacks] == [int(x) for x in stA.starting_stacks]])
            stB = None
            with warnings.catch_warnings():
                warnings.simplefilter('ignore')
                for stB in hh:
                    pass
            recB = raw_record(tid, stB, dict(spec, autos=[a.value for a in stB.automations]))
            parsed = True
        # a log that cannot be interpreted is reported and yields no hand
        bad = text.replace("Hold'em No Limit", 'Omaha Pot Limit').replace("No Limit Hold'em", 'Pot Limit Omaha').replace(
            "NL Texas Hold'em", 'PL Omaha').replace('NO_LIMIT TEXAS_HOLDEM', 'POT_LIMIT OMAHA').replace('Holdem  No Limit', 'Omaha  Pot Limit')
        if bad != text:
            with warnings.catch_warnings(record=True) as caught:
                warnings.simplefilter('always')
                hands2 = list(getattr(HandHistory, sites.IMPORT[site])(bad))
            flags.append([f'{site}: a log of a game it does not know yields no hand and a warning', not hands2 and bool(caught)])
        flags.append([f'{site}: import and replay without error', True])
    except Exception as e:  # noqa: BLE001
        flags.append([f'{site}: import and replay without error ({type(e).__name__}: {str(e)[:100]})', False])
    return {'tid': tid, 'kind': 'site', 'A': recA, 'B': recB, 'sync': [], 'flags': flags, 'parsed': parsed, 'site': site, 'text': text}
