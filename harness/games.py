"""Configurations: the 12 predefined variants (+ Kuhn, + custom street lists) with randomised parameters."""
from __future__ import annotations

import random

from . import pk
from .pk import Automation, BettingStructure, Deck, Mode, Opening, State, Street, Shuffles
import pokerkit
from pokerkit import games as pg

ALL_AUTOS = list(Automation)

VARIANTS = {
    # name: (class, kind, family)
    'FT': ('FixedLimitTexasHoldem', 'sb', 'flop'),
    'NT': ('NoLimitTexasHoldem', 'mb', 'flop'),
    'NR': ('NoLimitRoyalHoldem', 'mb', 'flop'),
    'NS': ('NoLimitShortDeckHoldem', 'mb', 'flop'),
    'PO': ('PotLimitOmahaHoldem', 'mb', 'flop'),
    'FO/8': ('FixedLimitOmahaHoldemHighLowSplitEightOrBetter', 'sb', 'flop'),
    'F7S': ('FixedLimitSevenCardStud', 'stud', 'stud'),
    'F7S/8': ('FixedLimitSevenCardStudHighLowSplitEightOrBetter', 'stud', 'stud'),
    'FR': ('FixedLimitRazz', 'stud', 'stud'),
    'N2L1D': ('NoLimitDeuceToSevenLowballSingleDraw', 'mb', 'draw'),
    'F2L3D': ('FixedLimitDeuceToSevenLowballTripleDraw', 'sb', 'draw'),
    'FB': ('FixedLimitBadugi', 'sb', 'draw'),
}

DECKS = {'STANDARD': Deck.STANDARD, 'SHORT_DECK_HOLDEM': Deck.SHORT_DECK_HOLDEM, 'REGULAR': Deck.REGULAR,
         'KUHN_POKER': Deck.KUHN_POKER, 'ROYAL_POKER': Deck.ROYAL_POKER}


def deck_name(deck) -> str:
    for k, v in DECKS.items():
        if deck is v:
            return k
    raise KeyError(deck)


def max_players(variant: str) -> int:
    fam = VARIANTS[variant][2]
    if variant == 'NR':
        return 6      # 20 cards: 12 hole + 3 burns + 5 board
    if variant in ('PO', 'FO/8'):
        return 9
    if fam == 'stud':
        return 8
    if fam == 'draw':
        return 6
    return 9


def create(spec: dict):
    """spec -> (State or exception name, cfg-extra).  spec keys: variant, n, autos, trim, antes, blinds, bringin, sb, bb,
    stacks, mode ('T'/'C'), boards0, rake, streets (custom), deck, types, structure, seed"""
    rng = random.Random(spec['seed'])
    Shuffles.rng = rng
    Shuffles.A = spec.get('shufA', 1)
    Shuffles.B = spec.get('shufB', 0)
    autos = tuple(a for a in ALL_AUTOS if a.value in spec['autos'])
    mode = Mode.TOURNAMENT if spec['mode'] == 'T' else Mode.CASH_GAME
    kw = dict(mode=mode, starting_board_count=spec.get('boards0', 1), rake=pk.make_rake(spec.get('rake')))
    v = spec['variant']
    if v == 'custom':
        streets = tuple(Street(s['burn'], tuple(s['hole']), s['board'], s['draw'], Opening(s['opening']), s['minbet'],
                               None if s['maxcnt'] < 0 else s['maxcnt']) for s in spec['streets'])
        types = tuple(pk.TYPE_CLASSES[t] for t in spec['types'])
        return State(autos, DECKS[spec['deck']], types, streets, BettingStructure(spec['structure']), spec['trim'],
                     spec['antes'], spec['blinds'], spec['bringin'], spec['stacks'], spec['n'], **kw)
    cls = getattr(pg, VARIANTS[v][0])
    kind = VARIANTS[v][1]
    if kind == 'mb':
        return cls.create_state(autos, spec['trim'], spec['antes'], spec['blinds'], spec['bb'], spec['stacks'], spec['n'], **kw)
    if kind == 'sb':
        return cls.create_state(autos, spec['trim'], spec['antes'], spec['blinds'], spec['sb'], spec['bb'], spec['stacks'],
                                spec['n'], **kw)
    if kind == 'stud':
        return cls.create_state(autos, spec['trim'], spec['antes'], spec['bringin'], spec['sb'], spec['bb'], spec['stacks'],
                                spec['n'], **kw)
    raise KeyError(v)


def random_spec(rng: random.Random, *, variants=None, autos='random', mode=None, max_n=None, stacks='mixed',
                boards=(1, 1, 1, 2), rake_p=0.15, ante_p=0.5, straddle_p=0.2, no_autos=()) -> dict:
    v = rng.choice(variants or list(VARIANTS))
    fam = VARIANTS[v][2]
    kind = VARIANTS[v][1]
    n = rng.randint(2, min(max_n or 9, max_players(v)))
    sb = rng.choice([1, 2, 5])
    if kind == 'mb':
        bbet = 2 * sb
        small = bbet
    else:
        small = 2 * sb
        bbet = 2 * small
    spec = {'variant': v, 'n': n, 'seed': rng.getrandbits(32), 'shufA': rng.randint(1, 52), 'shufB': rng.randint(0, 52)}
    # automations
    if autos == 'random':
        r = rng.random()
        if r < 0.25:
            spec['autos'] = [a.value for a in ALL_AUTOS]
        elif r < 0.4:
            spec['autos'] = []
        else:
            spec['autos'] = [a.value for a in ALL_AUTOS if rng.random() < 0.6]
    elif autos == 'all':
        spec['autos'] = [a.value for a in ALL_AUTOS]
    elif autos == 'none':
        spec['autos'] = []
    else:
        spec['autos'] = list(autos)
    spec['autos'] = [a for a in spec['autos'] if a not in no_autos]
    spec['mode'] = mode or rng.choice('TC')
    # antes
    antes = [0] * n
    trim = False
    if fam == 'stud' or rng.random() < ante_p:
        r = rng.random()
        a = rng.choice([1, 1, 2, 3])
        if fam == 'stud' or r < 0.5:
            antes = [a] * n
            trim = rng.random() < 0.8
        elif r < 0.75:
            antes[1 if n > 2 else 0] = a * rng.choice([1, 2, n])  # big blind ante
            trim = rng.random() < 0.2
        elif r < 0.9:
            antes[-1] = a * rng.choice([1, 2, n])   # button ante
            trim = rng.random() < 0.2
        else:
            antes = [rng.choice([0, 1, 2, 3]) for _ in range(n)]
            # unequal antes with trimming leave ante money above what the others paid; if those players fold the pot
            # has no eligible player (known "orphan pot" family) - generated only on request
            trim = False
            if not any(antes):
                antes[0] = 1
    spec['antes'] = antes
    spec['trim'] = trim
    # blinds / bring-in
    if fam == 'stud':
        spec['blinds'] = [0] * n
        spec['bringin'] = rng.choice([1, 1, max(1, small // 2), small - 1])
        if spec['bringin'] >= small:
            spec['bringin'] = small - 1
    else:
        bl = [sb, 2 * sb] + [0] * (n - 2)
        if n > 2 and rng.random() < straddle_p:
            bl[2] = 4 * sb
            if n > 3 and rng.random() < 0.3:
                bl[3] = 8 * sb
        if n > 3 and rng.random() < 0.12:      # a late-seated player posting (negative)
            j = rng.randrange(2, n)
            if bl[j] == 0:
                bl[j] = -2 * sb
        if rng.random() < 0.05:
            bl[0] = bl[1]                       # equal blinds
        spec['blinds'] = bl
        spec['bringin'] = 0
    spec['sb'] = small
    spec['bb'] = bbet
    # stacks
    unit = 2 * sb
    if stacks == 'mixed':
        r = rng.random()
        if r < 0.35:
            st = [rng.randint(1, 12 * unit) for _ in range(n)]             # short, unequal
        elif r < 0.7:
            st = [rng.choice([rng.randint(1, 3 * unit), rng.randint(10 * unit, 60 * unit)]) for _ in range(n)]
        else:
            st = [rng.randint(20 * unit, 100 * unit) for _ in range(n)]   # deep
    elif stacks == 'deep':
        st = [rng.randint(30 * unit, 100 * unit) for _ in range(n)]
    elif stacks == 'short':
        st = [rng.randint(1, 8 * unit) for _ in range(n)]
    else:
        st = list(stacks)
    spec['stacks'] = st
    spec['boards0'] = rng.choice(boards) if fam == 'flop' and v != 'NR' else 1
    if fam == 'flop' and spec['boards0'] == 2 and n > 6:
        spec['boards0'] = 1
    if rng.random() < rake_p:
        spec['rake'] = {'num': rng.choice([1, 1, 5, 10]), 'den': rng.choice([20, 10, 100]), 'cap': rng.choice([-1, 3, 10]),
                        'nfnd': rng.random() < 0.5}
    else:
        spec['rake'] = {'num': 0, 'den': 1, 'cap': -1, 'nfnd': False}
    return spec
