"""Configurations: the 12 predefined variants (+ Kuhn, + custom street lists) with randomised parameters."""
from __future__ import annotations

import random

from . import pk
from .pk import Automation, BettingStructure, Deck, Mode, Opening, State, Street, Shuffles
import pokerkit
from pokerkit import games as pg

ALL_AUTOS = list(Automation)

VARIANTS = {
    # name: (class, kind, family)
    'FT': ('FixedLimitTexasHoldem', 'sb', 'flop'),
    'NT': ('NoLimitTexasHoldem', 'mb', 'flop'),
    'NR': ('NoLimitRoyalHoldem', 'mb', 'flop'),
    'NS': ('NoLimitShortDeckHoldem', 'mb', 'flop'),
    'PO': ('PotLimitOmahaHoldem', 'mb', 'flop'),
    'FO/8': ('FixedLimitOmahaHoldemHighLowSplitEightOrBetter', 'sb', 'flop'),
    'F7S': ('FixedLimitSevenCardStud', 'stud', 'stud'),
    'F7S/8': ('FixedLimitSevenCardStudHighLowSplitEightOrBetter', 'stud', 'stud'),
    'FR': ('FixedLimitRazz', 'stud', 'stud'),
    'N2L1D': ('NoLimitDeuceToSevenLowballSingleDraw', 'mb', 'draw'),
    'F2L3D': ('FixedLimitDeuceToSevenLowballTripleDraw', 'sb', 'draw'),
    'FB': ('FixedLimitBadugi', 'sb', 'draw'),
}

DECKS = {'STANDARD': Deck.STANDARD, 'SHORT_DECK_HOLDEM': Deck.SHORT_DECK_HOLDEM, 'REGULAR': Deck.REGULAR,
         'KUHN_POKER': Deck.KUHN_POKER, 'ROYAL_POKER': Deck.ROYAL_POKER}


def deck_name(deck) -> str:
    for k, v in DECKS.items():
        if deck is v:
            return k
    return 'CUSTOM'


def max_players(variant: str) -> int:
    fam = VARIANTS[variant][2]
    if variant == 'NR':
        return 6      # 20 cards: 12 hole + 3 burns + 5 board
    if variant in ('PO', 'FO/8'):
        return 9
    if fam == 'stud':
        return 8
    if fam == 'draw':
        return 6
    return 9


def create(spec: dict):
    """spec -> (State or exception name, cfg-extra).  spec keys: variant, n, autos, trim, antes, blinds, bringin, sb, bb,
    stacks, mode ('T'/'C'), boards0, rake, streets (custom), deck, types, structure, seed"""
    rng = random.Random(spec['seed'])
    Shuffles.rng = rng
    Shuffles.fixed = spec.get('deck_order')
    Shuffles.A = spec.get('shufA', 1)
    Shuffles.B = spec.get('shufB', 0)
    autos = tuple(a for a in ALL_AUTOS if a.value in spec['autos'])
    if spec.get('chips') in ('fraction', 'float', 'decimal'):
        # the same amounts as Fraction / float / Decimal objects: the engine then divides pots with `/` instead of in whole chips
        # (exact for Fraction; exact for float and Decimal as long as every divisor met is a power of two - a hand in which a pot
        # is divided by 3, 5 or 7 leaves the logging grid and is left out by the driver, see pk.OffGrid)
        pk.Units.den = pk.Units.FINE
        pk.Units.kind = spec['chips']
        conv = pk.Units.conv
        spec = dict(spec)
        for k in ('antes', 'blinds', 'stacks'):
            spec[k] = [conv(x) for x in spec[k]]
        for k in ('bringin', 'sb', 'bb'):
            spec[k] = conv(spec[k])
        if 'streets' in spec:
            spec['streets'] = [dict(s, minbet=conv(s['minbet'])) for s in spec['streets']]
    else:
        pk.Units.den = 1
    mode = Mode.TOURNAMENT if spec['mode'] == 'T' else Mode.CASH_GAME
    kw = dict(mode=mode, starting_board_count=spec.get('boards0', 1), rake=pk.make_rake(spec.get('rake')))
    v = spec['variant']
    if v == 'custom':
        streets = tuple(Street(s['burn'], tuple(s['hole']), s['board'], s['draw'], Opening(s['opening']), s['minbet'],
                               None if s['maxcnt'] < 0 else s['maxcnt']) for s in spec['streets'])
        types = tuple(pk.TYPE_CLASSES[t] for t in spec['types'])
        deck = tuple(pk.int_card(c) for c in spec['deck_list']) if 'deck_list' in spec else DECKS[spec['deck']]
        return State(autos, deck, types, streets, BettingStructure(spec['structure']), spec['trim'],
                     spec['antes'], spec['blinds'], spec['bringin'], spec['stacks'], spec['n'], **kw)
    if spec.get('via_phh') == 'written':
        # the other direction: the code under which the hand-history writer files a hand of the game object, read back
        from pokerkit import HandHistory
        saved, pk.Tracer.active = pk.Tracer.active, None
        try:
            game, st0 = _direct(spec, autos, kw)
        finally:
            pk.Tracer.active = saved
        try:
            hh = HandHistory.from_game_state(game, st0)
        except KeyError:
            Last.written = None                       # no code for this game: nothing is written, the game itself is played
            Last.game = game
            Shuffles.rng = random.Random(spec['seed'])
            return game(spec['stacks'], spec['n'])
        Last.written = hh.variant
        hh.automations = autos
        Last.game = hh.create_game()
        Shuffles.rng = random.Random(spec['seed'])
        return hh.create_state()
    if spec.get('via_phh'):
        # the game behind a hand-history variant code (C11: the codes map to the same games)
        from pokerkit import HandHistory
        kind = VARIANTS[v][1]
        f = dict(variant=v, antes=list(spec['antes']), starting_stacks=list(spec['stacks']), actions=[], ante_trimming_status=spec['trim'],
                 automations=autos)
        if kind == 'stud':
            f.update(bring_in=spec['bringin'], small_bet=spec['sb'], big_bet=spec['bb'])
        elif kind == 'sb':
            f.update(blinds_or_straddles=list(spec['blinds']), small_bet=spec['sb'], big_bet=spec['bb'])
        else:
            f.update(blinds_or_straddles=list(spec['blinds']), min_bet=spec['bb'])
        hh = HandHistory(**f)
        Last.game = hh.create_game()
        return hh.create_state()
    game, st = _direct(spec, autos, kw)
    Last.game = game
    return st


def _direct(spec, autos, kw):
    v = spec['variant']
    cls = getattr(pg, VARIANTS[v][0])
    kind = VARIANTS[v][1]
    if kind == 'mb':
        game = cls(autos, spec['trim'], spec['antes'], spec['blinds'], spec['bb'], **kw)
    elif kind == 'sb':
        game = cls(autos, spec['trim'], spec['antes'], spec['blinds'], spec['sb'], spec['bb'], **kw)
    elif kind == 'stud':
        game = cls(autos, spec['trim'], spec['antes'], spec['bringin'], spec['sb'], spec['bb'], **kw)
    else:
        raise KeyError(v)
    return game, game(spec['stacks'], spec['n'])


class Last:
    """the game object behind the most recently created state (the hand-history writer wants it)"""
    game = None
    written = None


def random_spec(rng: random.Random, *, variants=None, autos='random', mode=None, max_n=None, stacks='mixed',
                boards=(1, 1, 1, 2), rake_p=0.15, ante_p=0.5, straddle_p=0.2, no_autos=(), via_phh=False, chips=None, force_boards0=None, single_forced=False) -> dict:
    v = rng.choice(variants or list(VARIANTS))
    fam = VARIANTS[v][2]
    kind = VARIANTS[v][1]
    n = rng.randint(2, min(max_n or 9, max_players(v)))
    sb = rng.choice([1, 2, 5])
    if kind == 'mb':
        bbet = 2 * sb
        small = bbet
    else:
        small = 2 * sb
        bbet = 2 * small
    spec = {'variant': v, 'n': n, 'seed': rng.getrandbits(32), 'shufA': rng.randint(1, 52), 'shufB': rng.randint(0, 52)}
    # automations
    if autos == 'random':
        r = rng.random()
        if r < 0.25:
            spec['autos'] = [a.value for a in ALL_AUTOS]
        elif r < 0.4:
            spec['autos'] = []
        else:
            spec['autos'] = [a.value for a in ALL_AUTOS if rng.random() < 0.6]
    elif autos == 'all':
        spec['autos'] = [a.value for a in ALL_AUTOS]
    elif autos == 'none':
        spec['autos'] = []
    else:
        spec['autos'] = list(autos)
    spec['autos'] = [a for a in spec['autos'] if a not in no_autos]
    spec['mode'] = mode or rng.choice('TC')
    if chips:
        spec['chips'] = chips
    if via_phh:
        spec['via_phh'] = via_phh
        spec['mode'] = 'C'
        spec['autos'] = [a for a in spec['autos'] if a != 'Card burning']
    # antes
    antes = [0] * n
    trim = False
    if fam == 'stud' or rng.random() < ante_p:
        r = rng.random()
        a = rng.choice([1, 1, 2, 3])
        if fam == 'stud' or r < 0.5:
            antes = [a] * n
            trim = rng.random() < 0.8
        elif r < 0.75:
            antes[1 if n > 2 else 0] = a * rng.choice([1, 2, n])  # big blind ante
            trim = rng.random() < 0.2
        elif r < 0.9:
            antes[-1] = a * rng.choice([1, 2, n])   # button ante
            trim = rng.random() < 0.2
        else:
            antes = [rng.choice([0, 1, 2, 3]) for _ in range(n)]
            # unequal antes with trimming leave ante money above what the others paid; if those players fold the pot
            # has no eligible player (known "orphan pot" family) - generated only on request
            trim = False
            if not any(antes):
                antes[0] = 1
    if single_forced:
        # one forced bet in the whole hand (a lone big blind, a bring-in without antes): folded to, it is the whole 'pot'
        antes, trim = [0] * n, False
    spec['antes'] = antes
    spec['trim'] = trim
    # blinds / bring-in
    if fam == 'stud':
        spec['blinds'] = [0] * n
        spec['bringin'] = rng.choice([1, 1, max(1, small // 2), small - 1])
        if spec['bringin'] >= small:
            spec['bringin'] = small - 1
    else:
        bl = [sb, 2 * sb] + [0] * (n - 2)
        if n > 2 and rng.random() < straddle_p:
            bl[2] = 4 * sb
            if n > 3 and rng.random() < 0.3:
                bl[3] = 8 * sb
        if n > 3 and rng.random() < 0.12:      # a late-seated player posting (negative)
            j = rng.randrange(2, n)
            if bl[j] == 0:
                bl[j] = -2 * sb
        if rng.random() < 0.05:
            bl[0] = bl[1]                       # equal blinds
        if single_forced:
            bl = [0, 2 * sb] + [0] * (n - 2)
        spec['blinds'] = bl
        spec['bringin'] = 0
    spec['sb'] = small
    spec['bb'] = bbet
    # stacks
    unit = 2 * sb
    if stacks == 'mixed':
        r = rng.random()
        if r < 0.35:
            st = [rng.randint(1, 12 * unit) for _ in range(n)]             # short, unequal
        elif r < 0.7:
            st = [rng.choice([rng.randint(1, 3 * unit), rng.randint(10 * unit, 60 * unit)]) for _ in range(n)]
        else:
            st = [rng.randint(20 * unit, 100 * unit) for _ in range(n)]   # deep
    elif stacks == 'deep':
        st = [rng.randint(30 * unit, 100 * unit) for _ in range(n)]
    elif stacks == 'short':
        st = [rng.randint(1, 8 * unit) for _ in range(n)]
    else:
        st = list(stacks)
    spec['stacks'] = st
    spec['boards0'] = rng.choice(boards) if fam == 'flop' and v != 'NR' else 1
    if fam == 'flop' and spec['boards0'] == 2 and n > 6:
        spec['boards0'] = 1
    if force_boards0:
        spec['boards0'] = force_boards0
    if rng.random() < rake_p:
        spec['rake'] = {'num': rng.choice([1, 1, 5, 10]), 'den': rng.choice([20, 10, 100]), 'cap': rng.choice([-1, 3, 10]),
                        'nfnd': rng.random() < 0.5}
    else:
        spec['rake'] = {'num': 0, 'den': 1, 'cap': -1, 'nfnd': False}
    return spec


def random_custom_spec(rng: random.Random, *, autos='random', mode=None, max_n=None, stacks='mixed', no_autos=(), **_ignored) -> dict:
    """a user-defined street list (the quantifiers of C01, C07, C10 name them): flop-like, stud-like, draw-like and mixed
    games with up and down cards, draws, board cards and burns in unusual combinations"""
    fam = rng.choice(['flop', 'stud', 'draw', 'mixed', 'mixed'])
    n = rng.randint(2, min(max_n or 6, 6))
    sb = rng.choice([1, 2, 5])
    small, big = 2 * sb, 4 * sb
    structure = rng.choice(['Fixed-limit', 'Pot-limit', 'No-limit'])
    cap = 4 if structure == 'Fixed-limit' else rng.choice([-1, -1, 3])
    deck = 'STANDARD'
    streets = []
    bringin = 0
    blinds = [0] * n
    antes = [0] * n

    def S(burn, hole, board, draw, opening, minbet):
        return {'burn': burn, 'hole': list(hole), 'board': board, 'draw': draw, 'opening': opening, 'minbet': minbet, 'maxcnt': cap}
    if fam == 'flop':
        k = rng.choice([2, 2, 3, 4])
        bl = rng.choice([(3, 1, 1), (3, 1, 1), (2, 1), (3, 2), (1, 1, 1, 1, 1), (5,), (3,)])
        streets.append(S(rng.random() < 0.3, [False] * k, 0, False, 'Position', small))
        for j, b in enumerate(bl):
            streets.append(S(rng.random() < 0.8, [], b, False, 'Position', small if j < len(bl) / 2 else big))
        if k == 4:
            types = rng.choice([['Omaha'], ['Omaha', 'Omaha8'], ['StandardHigh']])
        elif k == 2:
            types = rng.choice([['StandardHigh'], ['Greek'], ['StandardHigh', 'EightOrBetter'], ['StandardLow']])
        else:
            types = rng.choice([['StandardHigh'], ['StandardHigh', 'EightOrBetter']])
        if sum(bl) < 3 and 'Greek' in types or sum(bl) + k < 5 or (k == 4 and sum(bl) < 3):
            types = ['StandardHigh']
            if sum(bl) + k < 5:
                streets.append(S(True, [], 5 - sum(bl) - k, False, 'Position', big))
        blinds = [sb, 2 * sb] + [0] * (n - 2)
    elif fam == 'stud':
        first = rng.choice([[False, False, True], [False, True], [True, True, False], [False, True, True], [True]])
        more = rng.randint(1, 4)
        last_down = rng.random() < 0.5
        total = len(first) + more + (1 if last_down else 0)
        while total < 5:
            more += 1
            total += 1
        low = rng.random() < 0.4
        bringin = rng.choice([0, 1, max(1, small // 2)])
        if bringin >= small:
            bringin = small - 1
        antes = [rng.choice([1, 1, 2])] * n
        streets.append(S(rng.random() < 0.7, first, 0, False, 'High card' if low else 'Low card', small))
        for j in range(more):
            streets.append(S(rng.random() < 0.7, [True], 0, False, rng.choice(['Low hand'] if low else ['High hand', 'High hand', 'Position']),
                             small if j < 1 else big))
        if last_down:
            streets.append(S(rng.random() < 0.7, [False], 0, False, 'Low hand' if low else 'High hand', big))
        if low:
            types = rng.choice([['Regular'], ['StandardLow']])
            if types == ['Regular']:
                deck = 'REGULAR'
        else:
            types = rng.choice([['StandardHigh'], ['StandardHigh', 'EightOrBetter']])
        n = min(n, 52 // (total + 1))
    elif fam == 'draw':
        k = rng.choice([5, 5, 4])
        draws = rng.randint(1, 3)
        streets.append(S(rng.random() < 0.5, [False] * k, 0, False, 'Position', small))
        for j in range(draws):
            streets.append(S(rng.random() < 0.7, [], 0, True, 'Position', small if j < draws / 2 else big))
        types = rng.choice([['StandardLow'], ['StandardHigh'], ['Regular']]) if k == 5 else rng.choice([['Badugi'], ['StandardBadugi']])
        if types == ['Regular']:
            deck = 'REGULAR'
        blinds = [sb, 2 * sb] + [0] * (n - 2)
    else:
        # mixed: some hole cards face up, draws that must keep the facing of what was thrown away, a shared card, burns anywhere
        k = rng.choice([4, 5])
        first = [rng.random() < 0.45 for _ in range(k)]
        streets.append(S(rng.random() < 0.5, first, 0, False, 'Position', small))
        for j in range(rng.randint(1, 2)):
            streets.append(S(rng.random() < 0.6, [], rng.choice([0, 0, 1]), True, 'Position', small))
        if rng.random() < 0.5:
            streets.append(S(rng.random() < 0.6, [rng.random() < 0.5], rng.choice([0, 1]), False, rng.choice(['Position', 'High hand']), big))
        if rng.random() < 0.5:
            streets.append(S(rng.random() < 0.6, [], 1, False, 'Position', big))
        types = rng.choice([['StandardHigh'], ['StandardLow'], ['StandardHigh', 'EightOrBetter']]) if k == 5 else ['Badugi']
        blinds = [sb, 2 * sb] + [0] * (n - 2)
        if rng.random() < 0.4:
            antes = [1] * n
    n = max(2, n)
    blinds = (blinds + [0] * n)[:n]
    antes = (antes + [0] * n)[:n]
    if fam != 'stud' and n == 2:
        blinds = [sb, 2 * sb]
    spec = {'variant': 'custom', 'n': n, 'seed': rng.getrandbits(32), 'shufA': rng.randint(1, 52), 'shufB': rng.randint(0, 52),
            'streets': streets, 'types': types, 'deck': deck, 'structure': structure, 'family': fam}
    if autos == 'random':
        r = rng.random()
        spec['autos'] = ([a.value for a in ALL_AUTOS] if r < 0.25 else [] if r < 0.4 else
                         [a.value for a in ALL_AUTOS if rng.random() < 0.6])
    elif autos == 'all':
        spec['autos'] = [a.value for a in ALL_AUTOS]
    elif autos == 'none':
        spec['autos'] = []
    else:
        spec['autos'] = list(autos)
    spec['autos'] = [a for a in spec['autos'] if a not in no_autos]
    spec['mode'] = mode or rng.choice('TC')
    spec['antes'] = antes
    spec['trim'] = rng.random() < 0.5
    spec['blinds'] = blinds
    spec['bringin'] = bringin
    spec['sb'], spec['bb'] = small, big
    unit = 2 * sb
    if stacks == 'short':
        st = [rng.randint(1, 8 * unit) for _ in range(n)]
    elif stacks == 'deep':
        st = [rng.randint(30 * unit, 100 * unit) for _ in range(n)]
    else:
        st = [rng.choice([rng.randint(1, 4 * unit), rng.randint(10 * unit, 60 * unit)]) for _ in range(n)]
    spec['stacks'] = st
    spec['boards0'] = rng.choice([1, 1, 1, 2]) if any(s['board'] for s in streets) and n <= 4 else 1
    spec['rake'] = {'num': 0, 'den': 1, 'cap': -1, 'nfnd': False}
    return spec
