"""Running TLC: shards in parallel JVMs (one worker each, so output is sequential), parsing its verdict lines."""
from __future__ import annotations

import json
import os
import re
import shutil
import subprocess
import time
from concurrent.futures import ThreadPoolExecutor

VERIF = os.path.dirname(os.path.dirname(os.path.abspath(__file__)))
SPEC = os.path.join(VERIF, 'spec')
OUT = os.environ.get('VERIF_OUT') or os.path.join(VERIF, 'out')
JAVA_CP = '/opt/veriftools/tla/tla2tools.jar:/opt/veriftools/tla/CommunityModules-deps.jar'


class MachineryError(Exception):
    pass


def _die_with_parent():
    """a TLC started by a check must not outlive it (Linux: PR_SET_PDEATHSIG)"""
    try:
        import ctypes
        import signal
        ctypes.CDLL('libc.so.6').prctl(1, signal.SIGKILL)
    except Exception:  # noqa: BLE001
        pass


def fresh_dir(name: str) -> str:
    d = os.path.join(OUT, name)
    shutil.rmtree(d, ignore_errors=True)
    os.makedirs(d)
    return d


def write_shards(recs, outdir, prefix='shard', max_bytes=12_000_000, min_shards=1, max_shards=64):
    """ndjson shards bounded by size; returns [(path, [tids])].  Each record must carry 'tid'."""
    lines = [json.dumps(r, separators=(',', ':')) for r in recs]
    total = sum(len(x) for x in lines)
    nsh = max(min_shards, min(max_shards, total // max_bytes + 1))
    nsh = min(nsh, max(1, len(lines)))
    shards = [[] for _ in range(nsh)]
    sizes = [0] * nsh
    order = sorted(range(len(lines)), key=lambda i: -len(lines[i]))
    for i in order:                      # greedy balance by size
        j = sizes.index(min(sizes))
        shards[j].append(i)
        sizes[j] += len(lines[i])
    res = []
    for j, idxs in enumerate(shards):
        idxs.sort()
        path = os.path.join(outdir, f'{prefix}_{j}.ndjson')
        with open(path, 'w') as f:
            for i in idxs:
                f.write(lines[i])
                f.write('\n')
        res.append((path, [recs[i]['tid'] for i in idxs]))
    return res


def run_tlc(module: str, cfg: str, env: dict, metadir: str, *, workers=1, timeout=1800, extra=(), heap='6g', simulate=None):
    extra = list(extra)
    """one TLC run; returns (returncode, stdout, wall seconds)"""
    os.makedirs(metadir, exist_ok=True)
    cmd = ['java', '-XX:+UseParallelGC', f'-Xmx{heap}', '-Xss64m', '-cp', JAVA_CP, 'tlc2.TLC', '-config', os.path.join(SPEC, cfg),
           '-workers', str(workers), '-metadir', metadir, '-noGenerateSpecTE', '-deadlock']
    cmd += list(extra)
    cmd.append(os.path.join(SPEC, module))
    e = dict(os.environ)
    e.update(env)
    t0 = time.time()
    try:
        p = subprocess.run(cmd, env=e, cwd=SPEC, capture_output=True, text=True, timeout=timeout, preexec_fn=_die_with_parent)
    except subprocess.TimeoutExpired as ex:
        subprocess.run(['pkill', '-f', metadir], check=False)
        raise MachineryError(f'TLC timed out after {timeout}s on {module}') from ex
    return p.returncode, p.stdout + p.stderr, time.time() - t0


_STATS = re.compile(r'(\d+) states generated, (\d+) distinct states found')


def tlc_stats(out: str):
    m = None
    for m in _STATS.finditer(out):
        pass
    if not m:
        return 0, 0
    return int(m.group(1)), int(m.group(2))


def split_tuple_lines(out: str):
    """TLC PrintT output: values that start with << at the beginning of a line; may wrap over several lines.
    Returns the list of complete tuple texts (bracket matched)."""
    res = []
    cur = None
    depth = 0
    for line in out.splitlines():
        if cur is None:
            if not line.startswith('<<'):
                continue
            cur = ''
            depth = 0
        cur += line.strip() + ' '
        depth += line.count('<<') - line.count('>>')
        if depth <= 0:
            res.append(cur.strip())
            cur = None
    return res


def validate_traces(recs, name: str, *, prop='ALL', module='TraceHands.tla', cfg='TraceHands.cfg', jobs=16, timeout=1800, heap='3g',
                    max_bytes=12_000_000, envvar='TRACE', env=None):
    """Run the trace spec over the records.  Returns dict(done={tid: steps}, mismatches=[(tid, step, clause, text)],
    states, transitions, wall, outputs)."""
    d = fresh_dir(name)
    shards = write_shards(recs, d, max_bytes=max_bytes, min_shards=min(jobs, max(1, len(recs) // 4)))

    eval_errors = []

    def one(j):
        # A hand on which the specification cannot even be evaluated (an observed state outside anything the model's operators
        # are defined on) makes TLC stop with an evaluation error.  That hand is reported as a disagreement of its own kind,
        # taken out of the shard, and the rest of the shard is validated again.
        path, tids = shards[j]
        outs = ''
        for attempt in range(12):
            rc, out, wall = run_tlc(module, cfg, dict(env or {}, **{envvar: path, 'PROP': prop}), os.path.join(d, f'meta_{j}_{attempt}'), timeout=timeout, heap=heap)
            with open(os.path.join(d, f'tlc_{j}_{attempt}.log'), 'w') as f:
                f.write(out)
            if 'Model checking completed' in out or not tids:
                return j, rc, outs + out, wall, tids, []
            mt = re.findall(r'^/\\ tid = (\d+)', out, re.M)
            ml = re.findall(r'^/\\ l = (\d+)', out, re.M)
            if not mt or 'Error:' not in out:
                return j, rc, out, wall, tids, []
            k = int(mt[-1])
            reason = re.search(r'Reason:\s*(.*?)\n\d+ states generated', out, re.S)
            eval_errors.append({'tid': tids[k - 1], 'step': int(ml[-1]) + 1 if ml else 0, 'clause': 'model-eval-error', 'op': 'unknown',
                                'names': [], 'info': (reason.group(1) if reason else out[-800:]).strip()[:800]})
            with open(path) as f:
                lines = f.readlines()
            del lines[k - 1]
            tids = tids[:k - 1] + tids[k:]
            with open(path, 'w') as f:
                f.writelines(lines)
            # verdicts of hands completed before the error are kept: re-validation repeats them, DONE lines are idempotent
        return j, rc, out, wall, tids, []
    t0 = time.time()
    with ThreadPoolExecutor(max_workers=jobs) as ex:
        results = list(ex.map(one, range(len(shards))))
    done, mism = {}, []
    gen = dist = 0
    for j, rc, out, wall, tids, _ in results:
        if not tids and 'Model checking completed' not in out:
            continue
        if 'Model checking completed' not in out and 'Finished in' not in out:
            raise MachineryError(f'TLC did not complete on shard {j} (rc={rc}); see {d}/tlc_{j}.log\n' + out[-3000:])
        if rc not in (0,):
            # violations are never raised as TLC errors by the trace specs; anything else is machinery
            raise MachineryError(f'TLC rc={rc} on shard {j}; see {d}/tlc_{j}.log\n' + out[-3000:])
        g, s = tlc_stats(out)
        gen += g
        dist += s
        for t in split_tuple_lines(out):
            m = re.match(r'<<\s*"DONE",\s*(\d+),\s*(\d+)\s*>>', t)
            if m:
                done[tids[int(m.group(1)) - 1]] = int(m.group(2))
                continue
            m = re.match(r'<<\s*"MISMATCH",\s*(\d+),\s*(\d+),\s*"([^"]*)",\s*"([^"]*)",\s*(\{[^}]*\}),\s*(.*)>>$', t, re.S)
            if m:
                mism.append({'tid': tids[int(m.group(1)) - 1], 'step': int(m.group(2)), 'clause': m.group(3), 'op': m.group(4),
                             'names': sorted(re.findall(r'"([^"]*)"', m.group(5))), 'info': m.group(6).strip()})
    for e in eval_errors:
        mism.append(e)
        done.setdefault(e['tid'], e['step'])
    missing = [r['tid'] for r in recs if r['tid'] not in done]
    if missing:
        raise MachineryError(f'{len(missing)} traces without a verdict (e.g. tid {missing[:5]}); see {d}')
    return {'done': done, 'mismatches': mism, 'states': dist, 'transitions': gen, 'wall': time.time() - t0, 'dir': d}
