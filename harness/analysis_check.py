"""C18: range notation, equities, ICM against spec/Analysis.tla (function-level conformance, judged by TLC)."""
from __future__ import annotations

import itertools
import random
from fractions import Fraction

from . import pk, games
from .pk import TYPE_CLASSES, int_card, card_int
from .items import run_items
from .runner import Run

R = '23456789TJQKA'


def form_text(f):
    if f['form'] == 'cards':
        return repr(int_card(f['r0'])) + repr(int_card(f['r1']))
    t = R[f['r0']] + R[f['r1']] + f['mode']
    if f['form'] == 'plus':
        return t + '+'
    if f['form'] == 'dash':
        return t + '-' + R[f['r2']] + R[f['r3']] + f['mode']
    return t


def parse(*texts):
    from pokerkit import parse_range
    try:
        got = parse_range(*texts)
    except Exception as e:  # noqa: BLE001
        return None, type(e).__name__
    out = []
    for h in got:
        out.append(sorted(card_int(c) for c in h))
    return sorted(out), ''


def range_items(run: Run, rng, tier):
    items = []
    forms = []
    for r0 in range(13):
        for r1 in range(13):
            for mode in ('', 's', 'o'):
                forms.append({'form': 'plain', 'r0': r0, 'r1': r1, 'r2': 0, 'r3': 0, 'mode': mode})
                forms.append({'form': 'plus', 'r0': r0, 'r1': r1, 'r2': 0, 'r3': 0, 'mode': mode})
    # dash forms: every equal-gap pair of ends, and unequal gaps (must be refused)
    for r0 in range(13):
        for r1 in range(13):
            for r2 in range(13):
                r3 = r2 + (r1 - r0)
                if 0 <= r3 <= 12 and (tier != 'quick' or rng.random() < 0.35):
                    for mode in ('', 's', 'o'):
                        forms.append({'form': 'dash', 'r0': r0, 'r1': r1, 'r2': r2, 'r3': r3, 'mode': mode})
    for _ in range(150):
        r0, r1, r2, r3 = (rng.randrange(13) for _ in range(4))
        if r1 - r0 != r3 - r2:
            forms.append({'form': 'dash', 'r0': r0, 'r1': r1, 'r2': r2, 'r3': r3, 'mode': rng.choice(['', 's', 'o'])})
    for _ in range(100):
        a, b = rng.sample(range(52), 2)
        forms.append({'form': 'cards', 'r0': a, 'r1': b, 'r2': 0, 'r3': 0, 'mode': ''})
    for f in forms:
        got, exc = parse(form_text(f))
        items.append({'kind': 'range', 'f': f, 'text': form_text(f), 'raised': got is None, 'got': got or []})
        run.count('range_form:' + f['form'])
        run.nontrivial.add(('range', form_text(f)))
    # lists of forms in every separator style; all spellings must denote the same set
    valid = [f for f in forms if f['form'] != 'dash' or f['r1'] - f['r0'] == f['r3'] - f['r2']]
    for _ in range(120 if tier == 'quick' else 1500):
        fs = rng.sample(valid, rng.randint(1, 4))
        texts = [form_text(f) for f in fs]
        spellings = [' '.join(texts), ','.join(texts), ';'.join(texts), ', '.join(texts), ' ; '.join(texts), '  '.join(texts),
                     rng.choice([',', ';', ' ']).join(texts)]
        gots = []
        for sp in spellings:
            g, exc = parse(sp)
            gots.append(g if g is not None else [[-1, -1]])
        g, exc = parse(*texts)                 # several arguments
        gots.append(g if g is not None else [[-1, -1]])
        # leading / trailing / doubled separators are still only separators
        g, exc = parse(' ' + ', '.join(texts) + ' ,')
        gots.append(g if g is not None else [[-1, -1]])
        items.append({'kind': 'rangelist', 'fs': fs, 'texts': texts, 'gots': gots})
        run.count('range_lists')
    return items


def exact(x, limit=10 ** 6):
    f = Fraction(x).limit_denominator(limit)
    return [f.numerator, f.denominator]


def engine_showdown(types, holes, board, pot_each):
    """the engine's own split: every player all-in for pot_each on the ante, the given cards dealt explicitly"""
    from pokerkit import Automation, BettingStructure, Deck, Mode, Opening, State, Street
    n = len(holes)
    k = len(holes[0])
    autos = tuple(a for a in Automation if a not in (Automation.HOLE_DEALING, Automation.BOARD_DEALING, Automation.CARD_BURNING))
    streets = [Street(False, (False,) * k, 0, False, Opening.POSITION, 2, None)]
    if board:
        streets.append(Street(False, (), len(board), False, Opening.POSITION, 2, None))
    st = State(autos, Deck.STANDARD, tuple(TYPE_CLASSES[t] for t in types), tuple(streets), BettingStructure.NO_LIMIT, True,
               pot_each, 0, 0, pot_each, n, mode=Mode.TOURNAMENT)
    for i, h in enumerate(holes):
        st.deal_hole(tuple(int_card(c) for c in h), i)
    if board:
        st.deal_board(tuple(int_card(c) for c in board))
    assert not st.status, 'engine showdown did not finish'
    return [int(st.stacks[i]) for i in range(n)]


EQ_TYPES = [(['StandardHigh'], 2, 5), (['Omaha', 'Omaha8'], 4, 5), (['StandardHigh', 'EightOrBetter'], 7, 0), (['Omaha'], 4, 5),
            (['ShortDeck'], 2, 5), (['Regular'], 7, 0), (['Badugi'], 4, 0), (['StandardLow'], 5, 0), (['Greek'], 2, 5),
            (['StandardHigh', 'EightOrBetter'], 2, 5)]


def equity_items(run: Run, rng, tier):
    from pokerkit import calculate_equities, Deck
    items = []
    n_items = 260 if tier == 'quick' else 4000
    for _ in range(n_items):
        types, k, b = rng.choice(EQ_TYPES)
        n = rng.randint(2, 4 if k <= 5 else 3)
        deck = [c for c in range(52) if (types != ['ShortDeck'] or c // 4 >= 4)]
        r = rng.random()
        if r < 0.35:       # few ranks: ties, quartering, chopped lows
            rs = rng.sample(sorted({c // 4 for c in deck}), 6)
            pool = [c for c in deck if c // 4 in rs]
        elif r < 0.6:      # low cards: qualifying lows
            pool = [c for c in deck if c // 4 <= 6 or c // 4 == 12]
        elif r < 0.75:     # high cards only: no low possible
            pool = [c for c in deck if 7 <= c // 4 <= 11]
        else:
            pool = deck
        if len(pool) < n * k + b:
            pool = deck
        cs = rng.sample(pool, n * k + b)
        holes = [cs[i * k:(i + 1) * k] for i in range(n)]
        board = cs[n * k:]
        runs = []
        for sc in (1, 7):
            eq = calculate_equities([[frozenset(int_card(c) for c in h)] for h in holes], tuple(int_card(c) for c in board), k, b,
                                    Deck.STANDARD, tuple(TYPE_CLASSES[t] for t in types), sample_count=sc)
            runs.append([exact(x, 1000) for x in eq])
        pot_each = 120
        try:
            eng = engine_showdown(types, holes, board, pot_each)
        except Exception as e:  # noqa: BLE001
            eng = []
            run.count('engine_showdown_failed:' + type(e).__name__)
        items.append({'kind': 'equity', 'types': types, 'holes': holes, 'board': board, 'runs': runs, 'engine': eng, 'pot': pot_each * n})
        run.count('equity_deals')
        if len(types) == 2:
            run.count('equity_split_pot_deals')
        run.nontrivial.add(('equity', tuple(types), tuple(map(tuple, holes)), tuple(board)))
    return items


ROYAL = [c for c in range(52) if c // 4 >= 8]          # T J Q K A


def strength_items(run: Run, rng, tier):
    """calculate_hand_strength on small decks with the player's cards and the board complete: the only chance left is the
    opponents' cards, which TLC enumerates (the exact expectation); the code samples them (seeded, so the run is repeatable)
    and must land within six standard deviations.  Plus partial deals through calculate_equities: whatever was sampled, the
    values are shares of one pot."""
    import random as pyrandom
    from pokerkit import calculate_hand_strength, calculate_equities
    items = []
    n_samples = 1500
    tol = int(6 * 0.5 / n_samples ** 0.5 * 10 ** 6) + 1
    for j in range(36 if tier == 'quick' else 600):
        t = rng.choice(['StandardHigh', 'StandardHigh', 'Omaha', 'ShortDeck', 'StandardLow'])
        k = 4 if t == 'Omaha' else 2
        n = rng.choice([2, 2, 3])
        if n == 2:
            base = ROYAL if t in ('StandardHigh', 'ShortDeck') or rng.random() < 0.5 else rng.sample(range(52), 20)
            deck = sorted(rng.sample(base, min(len(base), k + 5 + rng.choice([k + 1, 6, 9]))))
        else:
            deck = sorted(rng.sample(ROYAL if rng.random() < 0.6 else [c for c in range(52) if t != 'ShortDeck' or c // 4 >= 4], k + 5 + 2 * k + rng.choice([0, 1])))
        cs = rng.sample(deck, k + 5)
        hole, board = cs[:k], cs[k:]
        pyrandom.seed(run.seed * 100003 + j)
        got = calculate_hand_strength(n, [[int_card(c) for c in hole]], [int_card(c) for c in board], k, 5, [int_card(c) for c in deck],
                                      (TYPE_CLASSES[t],), sample_count=n_samples)
        items.append({'kind': 'strength', 'types': [t], 'n': n, 'hole': hole, 'board': board, 'rest': sorted(set(deck) - set(cs)),
                      'micro': int(round(got * 10 ** 6)), 'tol': tol})
        run.count('hand_strength_cases')
        run.count(f'hand_strength_players:{n}')
        run.nontrivial.add(('strength', t, n, tuple(hole), tuple(board), tuple(deck)))
    for j in range(60 if tier == 'quick' else 800):
        types = rng.choice([['StandardHigh'], ['StandardHigh', 'EightOrBetter'], ['Omaha', 'Omaha8'], ['StandardHigh', 'StandardLow'], ['ShortDeck']])
        k = 4 if types[0] == 'Omaha' else 2
        n = rng.randint(2, 4)
        deck = [c for c in range(52) if c // 4 >= 4] if types[0] == 'ShortDeck' else list(range(52))
        cs = rng.sample(deck, n * k + 5)
        holes = [cs[i * k:i * k + rng.randint(0, k)] for i in range(n)]
        board = cs[n * k:n * k + rng.choice([0, 3, 4, 5])]
        pyrandom.seed(run.seed * 100019 + j)
        got = calculate_equities([[[int_card(c) for c in h]] for h in holes], [int_card(c) for c in board], k, 5, [int_card(c) for c in deck],
                                 tuple(TYPE_CLASSES[t] for t in types), sample_count=rng.choice([1, 7, 40]))
        items.append({'kind': 'equityany', 'types': types, 'holes': holes, 'board': board, 'micro': [int(round(x * 10 ** 6)) for x in got]})
        run.count('equity_partial_deals')
    return items


def icm_items(run: Run, rng, tier):
    from pokerkit import calculate_icm
    items = []
    payout_sets = [[50, 30, 20], [100], [70, 30], [10, 0], [1, 1], [60, 25, 10, 5], [50, 50, 0]]
    vecs = []
    for n in (2, 3):
        vecs += [list(v) for v in itertools.product(range(1, 6 if n == 3 else 7), repeat=n)]
    vecs += [list(v) for v in itertools.product(range(1, 4), repeat=4)]
    if tier == 'quick':
        vecs = rng.sample(vecs, 140)
    for chips in vecs:
        # more paid places than players: what 'the prize pool' is becomes a matter of convention - not asserted
        fit = [p for p in payout_sets if len(p) <= len(chips)]
        for pays in (fit if tier != 'quick' else rng.sample(fit, 2)):
            got = calculate_icm(pays, chips)
            items.append({'kind': 'icm', 'payouts': pays, 'chips': chips, 'got': [exact(x) for x in got],
                          'sorted': all(pays[j] >= pays[j + 1] for j in range(len(pays) - 1))})
            run.count('icm_vectors')
            run.nontrivial.add(('icm', tuple(pays), tuple(chips)))
    # stacks of very different sizes (a chip leader holding all but a millionth, or less, of the chips): the exact model's
    # rationals leave TLC's integers, so only what the property states about the values themselves is decided - in units of
    # a millionth of a prize unit: non-negative, adding up to the prize pool, ordered as the chips
    for _ in range(60 if tier == 'quick' else 1500):
        n = rng.randint(2, 4)
        chips = [rng.randint(1, 9) for _ in range(n)]
        chips[rng.randrange(n)] = rng.choice([10 ** 3, 10 ** 5, 10 ** 6, 5 * 10 ** 6, 2 * 10 ** 7, 10 ** 8, 2 * 10 ** 8]) * rng.randint(1, 9)   # < 2^31
        if rng.random() < 0.3:
            chips[rng.randrange(n)] = 10 ** rng.randint(3, 8)
        pays = rng.choice([p for p in payout_sets if len(p) <= n])
        got = calculate_icm(pays, chips)
        items.append({'kind': 'icmprop', 'payouts': pays, 'chips': chips, 'micro': [int(round(float(x) * 10 ** 6)) for x in got],
                      'sorted': all(pays[j] >= pays[j + 1] for j in range(len(pays) - 1))})
        run.count('icm_lopsided_vectors')
        run.nontrivial.add(('icmprop', tuple(pays), tuple(chips)))
    return items


def stats_items(run: Run, rng, tier):
    """analysis.Statistics over sessions of hands played on the engine: the code's per-player samples against Analysis!StatsPayoffs"""
    import warnings
    from pokerkit import HandHistory, Statistics
    from . import games, walk
    items = []
    pool_names = ['ann', 'bob', 'cy', 'dee', 'eve', 'fay', 'gus', 'hal', 'ida']
    sessions = 10 if tier == 'quick' else 120
    for s in range(sessions):
        pool = rng.sample(pool_names, rng.randint(2, 6))
        hands, hhs = [], []
        rake = 0
        closed = True
        for h in range(rng.randint(2, 6)):
            # finishing stacks written into the history: used as they are (raked hands too); absent: Statistics replays the history,
            # which carries no rake - those hands are played without one
            given = rng.random() < 0.5
            for _ in range(6):
                spec = games.random_spec(rng, variants=['NT', 'FT', 'PO', 'NS', 'F7S', 'FR', 'N2L1D', 'FB'], max_n=min(6, len(pool) + 1),
                                         stacks='short', boards=(1,), rake_p=0.3 if given else 0.0, autos='all')
                if spec['n'] > len(pool) and rng.random() < 0.5:
                    continue
                holder = {}
                rec = walk.play_hand(10 ** 6 + len(items) * 10 + h, spec, rng, walk.Policy(probe_level=0, illegal=0.0, fold=0.1), keep_state=holder)
                st = holder.get('state')
                if rec['create']['out'] == 'ok' and st is not None and not st.status:
                    break
            else:
                continue
            n = spec['n']
            seats = rng.sample(pool, n) if n <= len(pool) else None
            start = [int(x) for x in st.starting_stacks]
            fin = [int(x) for x in st.stacks]
            with warnings.catch_warnings():
                warnings.simplefilter('ignore')
                hh = HandHistory.from_game_state(games.Last.game, st, **({'players': seats} if seats else {}))
            if given:
                hh.finishing_stacks = list(fin)
                run.count('stats_finishing_stacks_given')
            else:
                run.count('stats_finishing_stacks_replayed')
            hhs.append(hh)
            hands.append({'names': [pool_names.index(x) + 1 for x in seats] if seats else [0] * n, 'start': start, 'fin': fin})
            rake += sum(start) - sum(fin)
            closed = closed and seats is not None
        if not hands:
            continue

        def enc(d):
            return [{'name': pool_names.index(k) + 1, 'payoffs': [int(x) for x in v.payoffs], 'count': v.sample_count, 'sum': int(v.payoff_sum),
                     'meanmilli': int(round(float(v.payoff_mean) * 1000))} for k, v in d.items()]
        with warnings.catch_warnings():
            warnings.simplefilter('ignore')
            whole = Statistics.from_hand_history(*hhs)
            m = rng.randint(0, len(hhs))
            a, b = Statistics.from_hand_history(*hhs[:m]), Statistics.from_hand_history(*hhs[m:])
        merged = {k: Statistics.merge(*[d[k] for d in (a, b) if k in d]) for k in set(a) | set(b)}
        items.append({'kind': 'stats', 'hands': hands, 'got': enc(whole), 'merged': enc(merged), 'closed': closed, 'rake': rake})
        run.count('stats_sessions')
        run.count('stats_hands', len(hands))
        if any(len(g['payoffs']) >= 2 for g in items[-1]['got']):
            run.count('stats_player_with_several_hands')
        run.nontrivial.add(('stats', tuple(tuple(x['names']) + tuple(x['fin']) for x in hands)))
    return items


def check_C18(run: Run):
    rng = random.Random(run.seed * 31 + 18)
    sig = lambda it, m: f"analysis:{it['kind']}"       # noqa: E731
    items = range_items(run, rng, run.tier)
    run.sample({k: items[5][k] for k in ('kind', 'text', 'got')})
    run_items(run, items, 'C18_ranges', sig=sig)
    items = equity_items(run, rng, run.tier)
    run.sample(items[0])
    run_items(run, items, 'C18_equities', sig=sig)
    items = strength_items(run, rng, run.tier)
    run.sample(items[0])
    run_items(run, items, 'C18_strength', sig=sig)
    items = icm_items(run, rng, run.tier)
    run.sample(items[0])
    run_items(run, items, 'C18_icm', sig=sig)
    items = stats_items(run, rng, run.tier)
    run.sample(items[0])
    run_items(run, items, 'C18_statistics', sig=sig)
    run.rule = ('ranges: every notation form over all 13x13 rank pairs x {plain, s, o} x {-, +}, equal-gap dash forms (sampled in '
                'quick), invalid dash forms, explicit cards, and lists in 9 separator styles; equities: fully specified deals of 10 '
                'hand-type tuples incl. split pots with and without a qualifying low, calculate_equities with two sample counts '
                'and the engine\'s own all-in showdown of the same cards, against Analysis!Shares as exact rationals; ICM: small chip '
                'vectors x payout vectors against the exact model; calculate_hand_strength with the hero and board complete on 12-20 card decks against the exact expectation over all opponent '
                'hands (TLC enumerates them; six standard deviations of slack); partial deals: values are shares of one pot; '
                'Monte-Carlo accuracy for other partial deals is not decided; player statistics (the mechanism the property file anchors under C18): '
                'sessions of 2-6 engine-played hands over 8 variants with named seats, finishing stacks given or replayed from the history, '
                'per-player samples / count / sum / mean and merge against Analysis!StatsPayoffs, payoff sums adding up to minus the rake')
    run.need('range_form:dash', 'range_lists', 'equity_split_pot_deals', 'icm_vectors', 'hand_strength_players:3', 'equity_partial_deals',
             'stats_sessions', 'stats_player_with_several_hands', 'stats_finishing_stacks_replayed')
