"""Exhaustive TLC instances of spec/MC.tla: instance generation, running, verdict parsing, and spec -> code replay of the
behaviours TLC emits."""
from __future__ import annotations

import itertools
import json
import os
import random
import re
import subprocess
import time

from . import tlc
from .runner import Run

ALL_AUTOS = ['Ante posting', 'Bet collection', 'Blind or straddle posting', 'Card burning', 'Hole dealing', 'Board dealing',
             'Runout-count selection', 'Hole cards showing or mucking', 'Hand killing', 'Chips pushing', 'Chips pulling']


def street(burn, hole, board, draw, opening, minbet, cap):
    return {'burn': burn, 'hole': list(hole), 'board': board, 'draw': draw, 'opening': opening, 'minbet': minbet, 'maxcnt': cap}


def cfg(n, streets, structure, antes, blinds, bringin, stacks, types, deckcards, autos, tournament=True, trim=True, boards0=1, werr=True):
    return {'n': n, 'streets': streets, 'structure': structure, 'trim': trim, 'antes': list(antes), 'blinds': list(blinds), 'bringin': bringin,
            'stacks0': list(stacks), 'tournament': tournament, 'boards0': boards0, 'types': list(types), 'autos': list(autos),
            'rake': {'num': 0, 'den': 1, 'cap': -1, 'nfnd': False}, 'werr': werr, 'shufA': 1, 'shufB': 0, 'typesPerPot': True, 'exact': False,
            'deckcards': sorted(deckcards)}


KUHN = [39, 43, 47]
JQK = [c for c in range(52) if c // 4 in (9, 10, 11)]
ROYAL = list(range(32, 52))


def auto_subsets(rng, relevant, k):
    subs = [[], list(ALL_AUTOS)]
    subs += [[a] for a in relevant[:3]]
    while len(subs) < k:
        subs.append([a for a in ALL_AUTOS if rng.random() < 0.5])
    return subs[:k]


def instance(name, tier, rng):
    q = tier == 'quick'
    cfgs = []
    maxrunout = 2
    keephist = True
    counts = 3
    if name == 'kuhn':
        st = [street(False, [False], 0, False, 'Position', 1, 2)]
        relevant = ['Ante posting', 'Bet collection', 'Hole dealing', 'Hole cards showing or mucking', 'Hand killing', 'Chips pushing',
                    'Chips pulling']
        if q:
            subs = auto_subsets(rng, relevant, 6)
        else:
            # every subset of the seven automations that matter in this game (no blinds, burns, boards or run-outs here)
            subs = [[a for j, a in enumerate(relevant) if m >> j & 1] for m in range(128)]
        decks = [list(p) for p in itertools.permutations(KUHN)]
        for stacks in ([(2, 2), (1, 3), (3, 2)] if q else [(2, 2), (1, 3), (3, 2), (3, 3)]):
            for autos in subs:
                for tour in (True, False):
                    for trim in ((True,) if q else (True, False)):
                        cfgs.append({'cfg': cfg(2, st, 'Fixed-limit', [1, 1], [0, 0], 0, stacks, ['Kuhn'], KUHN, autos, tour, trim, werr=tour),
                                     'decks': decks if not q else decks[:3]})
    elif name == 'miniflop':
        st = [street(False, [False, False], 0, False, 'Position', 2, -1), street(True, [], 3, False, 'Position', 2, -1)]
        dk = [rng.sample(ROYAL, 20) for _ in range(1 if q else 2)]
        for structure in (['No-limit'] if q else ['No-limit', 'Pot-limit']):
            for stacks in ([(3, 5), (4, 2)] if q else [(3, 5), (4, 2), (2, 2), (5, 5), (1, 6)]):
                for autos in ([], list(ALL_AUTOS)):
                    cfgs.append({'cfg': cfg(2, st, structure, [0, 0], [1, 2], 0, stacks, ['StandardHigh'], ROYAL, autos, True), 'decks': dk})
        # three-handed with unequal stacks: side pots, folded dead money, uncalled bets (mechanical steps automated: the manual
        # three-handed tree is thorough-tier)
        mech = ['Ante posting', 'Bet collection', 'Blind or straddle posting', 'Card burning', 'Hole dealing', 'Board dealing',
                'Hand killing', 'Chips pushing', 'Chips pulling']
        cfgs.append({'cfg': cfg(3, st, 'No-limit', [0, 0, 0], [1, 2, 0], 0, (2, 4, 3), ['StandardHigh'], ROYAL, mech, True), 'decks': dk[:1]})
        cfgs.append({'cfg': cfg(3, st, 'No-limit', [1, 1, 1], [1, 2, 0], 0, (3, 6, 4), ['StandardHigh'], ROYAL, list(ALL_AUTOS), False, trim=False),
                     'decks': dk[:1]})
        if not q:
            cfgs.append({'cfg': cfg(3, st, 'No-limit', [0, 0, 0], [1, 2, 0], 0, (3, 4, 2), ['StandardHigh'], ROYAL, [], True), 'decks': dk[:1]})
    elif name == 'ministud':
        st = [street(False, [False, True], 0, False, 'Low card', 2, 2), street(True, [True], 0, False, 'High hand', 2, 2)]
        dk = [rng.sample(JQK, 12) for _ in range(2 if q else 4)]
        some = ['Ante posting', 'Bet collection', 'Card burning', 'Hole dealing', 'Chips pushing', 'Chips pulling']
        for n, stacks in ([(2, (3, 4)), (3, (2, 5, 3))] if q else [(2, (3, 4)), (2, (1, 6)), (3, (2, 5, 3)), (3, (4, 4, 4))]):
            # three-handed with everything manual the tree of histories is out of reach: the mechanical steps are automated there
            for autos in (([] if n == 2 else some), list(ALL_AUTOS)):
                cfgs.append({'cfg': cfg(n, st, 'Fixed-limit', [1] * n, [0] * n, 1, stacks, ['Kuhn'], JQK, autos, True), 'decks': dk})
    elif name == 'minidraw':
        six = [36, 37, 40, 41, 44, 45, 38, 42]
        st = [street(False, [False, False], 0, False, 'Position', 2, 2), street(True, [], 0, True, 'Position', 2, 2)]
        dk = [rng.sample(six, 8) for _ in range(1 if q else 3)]
        for stacks in ([(4, 4)] if q else [(4, 4), (2, 5), (6, 3)]):
            for autos in ([], list(ALL_AUTOS)):
                cfgs.append({'cfg': cfg(2, st, 'Fixed-limit', [0, 0], [1, 2], 0, stacks, ['Kuhn'], six, autos, True), 'decks': dk})
    elif name == 'runout':
        counts = 0
        st = [street(False, [False, False], 0, False, 'Position', 2, -1), street(True, [], 3, False, 'Position', 2, -1),
              street(True, [], 1, False, 'Position', 2, -1)]
        dk = [rng.sample(range(52), 52)]
        for boards0 in (1, 2):
            for tour in (False, True):
                for autos in ([], ['Ante posting', 'Bet collection', 'Blind or straddle posting', 'Card burning', 'Hole dealing', 'Board dealing',
                                   'Hand killing', 'Chips pushing', 'Chips pulling']):
                    if q and ((boards0 == 2 and not autos) or (boards0 == 2 and tour)):
                        continue        # the manual double-board tree (80k states) and the tournament double board: thorough tier
                    cfgs.append({'cfg': cfg(2, st, 'No-limit', [0, 0], [1, 2], 0, (2, 3), ['StandardHigh'], range(52), autos, tour,
                                             boards0=boards0, werr=True), 'decks': dk})
    elif name == 'runoutlate':
        counts = 0
        st = [street(False, [False, False], 0, False, 'Position', 2, -1), street(True, [], 3, False, 'Position', 2, -1),
              street(True, [], 1, False, 'Position', 2, -1)]
        dk = [rng.sample(range(52), 52)]
        # deeper stacks: the players can also get all-in on the flop (the second-to-last street) with the run-out choice offered there,
        # not only before the flop (stacks 2 and 3 are all-in as soon as the big blind is called)
        full = ['Ante posting', 'Bet collection', 'Blind or straddle posting', 'Card burning', 'Hole dealing', 'Board dealing',
                'Hand killing', 'Chips pushing', 'Chips pulling']
        for tour in ((False,) if q else (False, True)):
            cfgs.append({'cfg': cfg(2, st, 'No-limit', [0, 0], [1, 2], 0, (4, 5), ['StandardHigh'], range(52), full, tour, boards0=1, werr=True),
                         'decks': dk})
    elif name == 'hilo':
        # split pots: two hand types (high, eight-or-better low), two starting boards, side pots - everything the award rule splits over
        low = [48, 0, 4, 9, 13, 25, 44, 45, 50, 2, 6, 43, 49, 1]       # Ac 2c 3c 4d 5d 8d Kc Kd Ah 2h 3h Qs Ad 2d
        st = [street(False, [False, False], 0, False, 'Position', 2, -1), street(True, [], 3, False, 'Position', 2, -1)]
        dk = [rng.sample(low, len(low)) for _ in range(3 if q else 8)]
        for n, stacks, blinds in ((2, (2, 2), [1, 2]), (2, (3, 5), [1, 2]), (3, (1, 2, 3), [1, 2, 0])):
            for boards0 in (1, 2):
                if n == 3 and boards0 == 2:
                    continue        # 6 hole + 6 board + burn > 14 cards
                cfgs.append({'cfg': cfg(n, st, 'No-limit', [0] * n, blinds, 0, stacks, ['StandardHigh', 'EightOrBetter'], low, list(ALL_AUTOS), True,
                                         boards0=boards0), 'decks': dk})
    elif name == 'betting':
        # one betting round in depth: three players, unequal stacks up to 8, blinds, every amount - short all-in raises that do and do
        # not re-open the action, min-raise sizes, covered players; no-limit and pot-limit; one card each (best card wins)
        st = [street(False, [False], 0, False, 'Position', 2, -1)]
        dk = [rng.sample(JQK, 12)]
        mech = ['Ante posting', 'Bet collection', 'Blind or straddle posting', 'Card burning', 'Hole dealing', 'Board dealing',
                'Hole cards showing or mucking', 'Hand killing', 'Chips pushing', 'Chips pulling']
        for structure in ('No-limit', 'Pot-limit'):
            for stacks in ([(3, 8, 6), (4, 8, 8), (2, 7, 4)] if q else [(3, 8, 6), (4, 8, 8), (5, 3, 9), (2, 7, 4), (6, 8, 7)]):
                cfgs.append({'cfg': cfg(3, st, structure, [0, 0, 0], [1, 2, 0], 0, stacks, ['Kuhn'], JQK, mech, True), 'decks': dk})
        if not q:
            cfgs.append({'cfg': cfg(4, st, 'No-limit', [0] * 4, [1, 2, 0, 0], 0, (3, 6, 4, 6), ['Kuhn'], JQK, mech, True), 'decks': dk})
    elif name == 'blindlayouts':
        # who opens: straddles, late posts (negative), short posters, heads-up - on the two-street flop game, mechanical steps automated
        st = [street(False, [False, False], 0, False, 'Position', 2, -1), street(True, [], 3, False, 'Position', 2, -1)]
        dk = [rng.sample(ROYAL, 20)]
        mech = ['Ante posting', 'Bet collection', 'Blind or straddle posting', 'Card burning', 'Hole dealing', 'Board dealing',
                'Hole cards showing or mucking', 'Hand killing', 'Chips pushing', 'Chips pulling']
        for blinds, stacks in (([1, 2, 4], (6, 6, 6)), ([1, 2, 0, -2], (5, 5, 5, 5)), ([1, 2, 4, 0], (3, 1, 6, 5)), ([1, 2], (1, 4)), ([1, 2, 0], (4, 1, 4)),
                               ([1, 2, 2], (4, 4, 4))):
            cfgs.append({'cfg': cfg(len(blinds), st, 'No-limit' if len(blinds) < 4 else 'Fixed-limit', [0] * len(blinds), blinds, 0, stacks, ['StandardHigh'],
                                     ROYAL, mech, True), 'decks': dk})
    else:
        raise KeyError(name)
    return {'cfgs': cfgs, 'maxrunout': maxrunout, 'keephist': keephist, 'counts': counts}


_INV = re.compile(r'Invariant (\w+) is violated')
_PROP = re.compile(r'(?:Action property|Temporal property|property) (\w+)? ?(?:is|was) violated', re.I)


def run_instance(run: Run, name: str, inst: dict, *, emit=False, cfgfile='MC.cfg', timeout=3000, workers=16, emitk='1'):
    d = tlc.fresh_dir('mc_' + name)
    path = os.path.join(d, 'inst.json')
    with open(path, 'w') as f:
        json.dump(inst, f)
    env = {'MCCFG': path, 'EMIT': '1' if emit else '0', 'EMITK': emitk}
    rc, out, wall = tlc.run_tlc('MC.tla', cfgfile, env, os.path.join(d, 'meta'), workers=workers, timeout=timeout, heap='12g', extra=['-continue'])
    with open(os.path.join(d, 'tlc.log'), 'w') as f:
        f.write(out)
    gen, dist = tlc.tlc_stats(out)
    run.add_tlc(dist, gen)
    bad = sorted(set(_INV.findall(out)))
    m2 = re.search(r'Action property (\w+) is violated|Temporal properties were violated', out)
    completed = 'Model checking completed' in out or 'Finished in' in out
    res = {'name': name, 'states': dist, 'transitions': gen, 'wall': round(wall, 1), 'configs': len(inst['cfgs']),
           'violated': bad + ([m2.group(0)] if m2 else []), 'completed': completed, 'dir': d, 'out': out}
    if not completed and not bad and not m2:
        raise tlc.MachineryError(f'TLC did not complete on MC instance {name} (rc={rc}); see {d}/tlc.log\n' + out[-2500:])
    return res


def behaviours(out: str):
    """the BEH lines TLC printed: JSON documents of terminal histories"""
    res = []
    for t in tlc.split_tuple_lines(out):
        m = re.match(r'<<\s*"BEH",\s*"(.*)"\s*>>$', t, re.S)
        if m:
            s = m.group(1).replace(' ', ' ')
            s = bytes(s, 'utf-8').decode('unicode_escape') if '\\\\' in s else s.replace('\\"', '"')
            res.append(json.loads(s))
    return res


# ---------------------------------------------------------------------------------------------------------------------
# spec -> code: every behaviour TLC emitted is re-executed on the real engine; the resulting traces go back through
# spec/TraceHands.tla, so the judgement is TLC's in both directions
# ---------------------------------------------------------------------------------------------------------------------
def spec_of_cfg(c: dict, deck_order, seed=0):
    return {'variant': 'custom', 'n': c['n'], 'seed': seed, 'shufA': c['shufA'], 'shufB': c['shufB'], 'autos': list(c['autos']),
            'mode': 'T' if c['tournament'] else 'C', 'antes': list(c['antes']), 'trim': c['trim'], 'blinds': list(c['blinds']),
            'bringin': c['bringin'], 'sb': 0, 'bb': 0, 'stacks': list(c['stacks0']), 'boards0': c['boards0'], 'rake': dict(c['rake']),
            'streets': c['streets'], 'types': list(c['types']), 'deck': 'STANDARD', 'deck_list': list(c['deckcards']),
            'deck_order': list(deck_order), 'structure': c['structure'], 'werr': c['werr']}


def call_of(rec: dict):
    """the public call that performs a logged operation, leaving the choice of cards to the engine (same deck order)"""
    from .play import A, NOARGS
    k, p = rec['k'], rec['p']
    if k in ('AP', 'BP', 'HK', 'PULL'):
        return {'AP': 'post_ante', 'BP': 'post_blind_or_straddle', 'HK': 'kill_hand', 'PULL': 'pull_chips'}[k], A(p=p)
    if k in ('BC', 'F', 'CC', 'BI', 'PUSH'):
        return {'BC': 'collect_bets', 'F': 'fold', 'CC': 'check_or_call', 'BI': 'post_bring_in', 'PUSH': 'push_chips'}[k], NOARGS
    if k == 'CB':
        return 'burn_card', NOARGS
    if k == 'HD':
        return 'deal_hole', A(p=p, mode='count', n=len(rec['cards']))
    if k == 'BD':
        return 'deal_board', A(mode='count', n=len(rec['cards']))
    if k == 'SD':
        return 'stand_pat_or_discard', A(cards=rec['cards'])
    if k == 'CBR':
        return 'complete_bet_or_raise_to', A(has=True, amt=rec['amt'])
    if k == 'RS':
        return 'select_runout_count', A(p=p, has=rec['amt'] > 0, amt=rec['amt'])
    if k == 'SM':
        return 'show_or_muck_hole_cards', A(p=p, mode='bool', b=bool(rec['cards']))
    raise KeyError(k)


def replay_behaviour(tid, inst, beh, probe_level=None):
    """re-execute one emitted behaviour on the real code -> a hand record for TraceHands (+ whether the code followed it)"""
    from . import twins, play, pk
    c = inst['cfgs'][beh['cid'] - 1]['cfg']
    deck = inst['cfgs'][beh['cid'] - 1]['decks'][beh['did'] - 1]
    spec = spec_of_cfg(c, deck)
    st, rec = twins.new_record(tid, spec)
    followed = st is not None
    if st is None:
        return rec, False
    for j, r in enumerate(beh['log']):
        if len(st.operations) > j:
            continue                                   # automation has already done it
        if not st.status:
            followed = False
            break
        op, a = call_of(r)
        probes, psame = ((), True)
        if probe_level is not None:
            # every question of the candidate universe at this state of the exhaustive instance: guards must agree
            from . import walk
            probes, psame = play.probes(st, walk.probe_universe(st, random.Random(j), probe_level), spec['werr'])
        ev = play.step(st, op, a, spec['werr'], probes, psame=psame)
        rec['steps'].append(ev)
        if ev['out'] != 'ok':
            followed = False
            break
    if followed:
        got = [pk.op_rec(o) for o in st.operations]
        followed = (len(got) == len(beh['log']) and [int(x) for x in st.stacks] == list(beh['stacks']) and bool(st.status) == bool(beh['status']))
    rec['finished'] = not st.status
    return rec, followed


MC_FOR = {
    'C01': ['kuhn', 'miniflop'], 'C02': ['miniflop', 'hilo', 'runout'], 'C03': ['miniflop', 'ministud', 'betting'], 'C06': ['minidraw', 'kuhn'],
    'C07': ['kuhn', 'ministud', 'minidraw'], 'C08': ['kuhn', 'minidraw'], 'C09': ['kuhn', 'ministud'], 'C10': ['ministud', 'minidraw'],
    'C12': ['miniflop', 'hilo'], 'C13': ['ministud', 'blindlayouts'], 'C14': ['runout', 'runoutlate'], 'C15': ['kuhn', 'minidraw'],
}
# which model-level invariants / properties decide which property (C09, C12: see DESIGN - decided by the conformance part; the
# instances still provide the behaviours that are replayed into the code)
OWN = {
    'C01': ['Inv_C01_', 'Prop_C01_'], 'C02': ['Inv_C02_'], 'C03': ['Inv_C03_'], 'C06': ['Inv_C06_'],
    'C07': ['Inv_C07_', 'Prop_C07_', 'OnlyKnownFaults'], 'C08': ['Inv_C08_'], 'C09': ['OnlyKnownFaults', 'Inv_C15_replay'], 'C10': ['Inv_C10_'],
    'C12': ['Inv_C12_'], 'C13': ['Inv_C13_'], 'C14': ['Inv_C14_'], 'C15': ['Inv_C15_'],
}


def mc_part(run: Run, prop: str, replay_max=None):
    """exhaustive instances for the property + replay of (a sample of) their terminal behaviours into the real code"""
    from . import trace_checks as T
    from . import pk
    rng = random.Random(run.seed * 131 + sum(map(ord, prop)))
    probing = prop in ('C03', 'C07', 'C08', 'C10', 'C14')
    if replay_max is None:
        replay_max = (250 if probing else 500) if run.tier == 'quick' else (3000 if probing else 6000)
    for name in MC_FOR[prop]:
        inst = instance(name, run.tier, random.Random(run.seed * 17 + len(name)))
        huge = name in ('minidraw', 'runout', 'runoutlate', 'miniflop')
        if run.tier == 'quick':
            emitk = '10' if name in ('minidraw', 'runout') else '2' if name == 'runoutlate' else '1'
        else:
            emitk = '100' if huge else '10' if name in ('ministud', 'kuhn') else '1'
        r = run_instance(run, name, inst, emit=True, timeout=3000 if run.tier == 'quick' else 14000, emitk=emitk)
        mine = [v for v in r['violated'] if any(v.startswith(p) or p in v for p in OWN[prop])]
        for v in mine:
            i = r['out'].find(v)
            run.violation(f'model:{v}', f"TLC: {v} violated on the exhaustive instance '{name}' of the model; counterexample: "
                          + r['out'][i:i + 1500], {'kind': 'mc', 'instance': name, 'violated': v, 'log': os.path.join(r['dir'], 'tlc.log')})
        others = [v for v in r['violated'] if v not in mine]
        behs = [b for b in behaviours(r['out'])]
        run.count('mc_states:' + name, r['states'])
        run.count('mc_terminal_behaviours_emitted:' + name, len(behs))
        run.count('mc_emitted_one_in:' + name, int(emitk))
        run.count('mc_behaviours_with_orphan_pot_fault:' + name, sum(1 for b in behs if b['fault']))
        ok = [b for b in behs if not b['fault']]
        sample = ok if len(ok) <= replay_max else rng.sample(ok, replay_max)
        recs, lost = [], 0
        for j, b in enumerate(sample):
            rec, followed = replay_behaviour(j + 1, inst, b, probe_level=1 if probing else None)
            T.mechanisms(run, rec)
            recs.append(rec)
            if not followed:
                lost += 1
                if lost <= 3:
                    run.violation('spec-behaviour-not-followed', f"a terminal behaviour of the model instance '{name}' is not a behaviour of the "
                                  f"code: config {b['cid']} deck {b['did']} log {[(x['k'], x['p'], x['amt']) for x in b['log']]}",
                                  {'kind': 'mc-replay', 'instance': name, 'behaviour': b, 'hand': T.short_hand(rec),
                                   'cfg': inst['cfgs'][b['cid'] - 1]['cfg'], 'deck': inst['cfgs'][b['cid'] - 1]['decks'][b['did'] - 1]})
        run.part(f'{prop}_mc_{name}', configs=r['configs'], states=r['states'], transitions=r['transitions'], tlc_wall=r['wall'],
                 violated_here=mine, violated_other_properties=others, terminal_behaviours_emitted=len(behs), emitted_one_in=int(emitk), replayed=len(recs), not_followed=lost,
                 exhaustive_replay=len(sample) == len(ok))
        if recs:
            T.validate(run, recs, f'{prop}_mcreplay_{name}', prop)
            run.sample({'instance': name, 'behaviour_replayed_into_the_code': T.short_hand(recs[0])}, limit=8)
    if prop == 'C07':
        # every hand ends: <>(hand over) under weak fairness of Next, on the smallest instance (liveness checking is costly)
        inst = instance('kuhn', 'quick', random.Random(run.seed * 17 + 4))
        inst['keephist'] = False
        if run.tier == 'quick':
            inst['cfgs'] = inst['cfgs'][:12]
        r = run_instance(run, 'kuhn_liveness', inst, emit=False, cfgfile='MC_live.cfg', timeout=3000)
        if r['violated'] or 'Temporal properties were violated' in r['out']:
            run.violation('model:Prop_C07_terminates', 'TLC: a behaviour of the model in which the hand never ends: ' + r['out'][-1500:],
                          {'kind': 'mc', 'instance': 'kuhn_liveness'})
        run.part('C07_mc_liveness', configs=len(inst['cfgs']), states=r['states'], tlc_wall=r['wall'], property='<>(hand over) under WF(Next)')
