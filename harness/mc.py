"""Exhaustive TLC instances of spec/MC.tla: instance generation, running, verdict parsing, and spec -> code replay of the
behaviours TLC emits."""
from __future__ import annotations

import itertools
import json
import os
import random
import re
import subprocess
import time

from . import tlc
from .runner import Run

ALL_AUTOS = ['Ante posting', 'Bet collection', 'Blind or straddle posting', 'Card burning', 'Hole dealing', 'Board dealing',
             'Runout-count selection', 'Hole cards showing or mucking', 'Hand killing', 'Chips pushing', 'Chips pulling']


def street(burn, hole, board, draw, opening, minbet, cap):
    return {'burn': burn, 'hole': list(hole), 'board': board, 'draw': draw, 'opening': opening, 'minbet': minbet, 'maxcnt': cap}


def cfg(n, streets, structure, antes, blinds, bringin, stacks, types, deckcards, autos, tournament=True, trim=True, boards0=1, werr=True):
    return {'n': n, 'streets': streets, 'structure': structure, 'trim': trim, 'antes': list(antes), 'blinds': list(blinds), 'bringin': bringin,
            'stacks0': list(stacks), 'tournament': tournament, 'boards0': boards0, 'types': list(types), 'autos': list(autos),
            'rake': {'num': 0, 'den': 1, 'cap': -1, 'nfnd': False}, 'werr': werr, 'shufA': 1, 'shufB': 0, 'typesPerPot': True,
            'deckcards': sorted(deckcards)}


KUHN = [39, 43, 47]
JQK = [c for c in range(52) if c // 4 in (9, 10, 11)]
ROYAL = list(range(32, 52))


def auto_subsets(rng, relevant, k):
    subs = [[], list(ALL_AUTOS)]
    subs += [[a] for a in relevant[:3]]
    while len(subs) < k:
        subs.append([a for a in ALL_AUTOS if rng.random() < 0.5])
    return subs[:k]


def instance(name, tier, rng):
    q = tier == 'quick'
    cfgs = []
    maxrunout = 2
    keephist = True
    if name == 'kuhn':
        st = [street(False, [False], 0, False, 'Position', 1, 2)]
        subs = auto_subsets(rng, ['Ante posting', 'Bet collection', 'Hole dealing', 'Hole cards showing or mucking', 'Hand killing',
                                   'Chips pushing', 'Chips pulling'], 6 if q else 24)
        decks = [list(p) for p in itertools.permutations(KUHN)]
        for stacks in ([(2, 2), (1, 3), (3, 2)] if q else list(itertools.product((1, 2, 3), repeat=2))):
            for autos in subs:
                for tour in (True, False):
                    for trim in ((True,) if q else (True, False)):
                        cfgs.append({'cfg': cfg(2, st, 'Fixed-limit', [1, 1], [0, 0], 0, stacks, ['Kuhn'], KUHN, autos, tour, trim, werr=tour),
                                     'decks': decks if not q else decks[:3]})
    elif name == 'miniflop':
        st = [street(False, [False, False], 0, False, 'Position', 2, -1), street(True, [], 3, False, 'Position', 2, -1)]
        dk = [rng.sample(ROYAL, 20) for _ in range(1 if q else 2)]
        for structure in (['No-limit'] if q else ['No-limit', 'Pot-limit']):
            for stacks in ([(3, 5), (4, 2)] if q else [(3, 5), (4, 2), (2, 2), (5, 5), (1, 6)]):
                for autos in ([], list(ALL_AUTOS)):
                    cfgs.append({'cfg': cfg(2, st, structure, [0, 0], [1, 2], 0, stacks, ['StandardHigh'], ROYAL, autos, True), 'decks': dk})
        if not q:
            cfgs.append({'cfg': cfg(3, st, 'No-limit', [0, 0, 0], [1, 2, 0], 0, (3, 4, 2), ['StandardHigh'], ROYAL, [], True), 'decks': dk[:1]})
    elif name == 'ministud':
        st = [street(False, [False, True], 0, False, 'Low card', 2, 2), street(True, [True], 0, False, 'High hand', 2, 2)]
        dk = [rng.sample(JQK, 12) for _ in range(2 if q else 4)]
        for n, stacks in ([(2, (3, 4)), (3, (2, 5, 3))] if q else [(2, (3, 4)), (2, (1, 6)), (3, (2, 5, 3)), (3, (4, 4, 4))]):
            for autos in ([], list(ALL_AUTOS)):
                cfgs.append({'cfg': cfg(n, st, 'Fixed-limit', [1] * n, [0] * n, 1, stacks, ['Kuhn'], JQK, autos, True), 'decks': dk})
    elif name == 'minidraw':
        six = [36, 37, 40, 41, 44, 45, 38, 42]
        st = [street(False, [False, False], 0, False, 'Position', 2, 2), street(True, [], 0, True, 'Position', 2, 2)]
        dk = [rng.sample(six, 8) for _ in range(1 if q else 3)]
        for stacks in ([(4, 4)] if q else [(4, 4), (2, 5), (6, 3)]):
            for autos in ([], list(ALL_AUTOS)):
                cfgs.append({'cfg': cfg(2, st, 'Fixed-limit', [0, 0], [1, 2], 0, stacks, ['Kuhn'], six, autos, True), 'decks': dk})
    elif name == 'runout':
        st = [street(False, [False, False], 0, False, 'Position', 2, -1), street(True, [], 3, False, 'Position', 2, -1),
              street(True, [], 1, False, 'Position', 2, -1)]
        dk = [rng.sample(range(52), 52)]
        for boards0 in (1, 2):
            for tour in (False, True):
                for autos in ([], ['Ante posting', 'Bet collection', 'Blind or straddle posting', 'Card burning', 'Hole dealing', 'Board dealing',
                                   'Hand killing', 'Chips pushing', 'Chips pulling']):
                    cfgs.append({'cfg': cfg(2, st, 'No-limit', [0, 0], [1, 2], 0, (2, 3), ['StandardHigh'], range(52), autos, tour,
                                             boards0=boards0, werr=True), 'decks': dk})
    else:
        raise KeyError(name)
    return {'cfgs': cfgs, 'maxrunout': maxrunout, 'keephist': keephist}


_INV = re.compile(r'Invariant (\w+) is violated')
_PROP = re.compile(r'(?:Action property|Temporal property|property) (\w+)? ?(?:is|was) violated', re.I)


def run_instance(run: Run, name: str, inst: dict, *, emit=False, cfgfile='MC.cfg', timeout=3000, workers=16):
    d = tlc.fresh_dir('mc_' + name)
    path = os.path.join(d, 'inst.json')
    with open(path, 'w') as f:
        json.dump(inst, f)
    env = {'MCCFG': path, 'EMIT': '1' if emit else '0'}
    rc, out, wall = tlc.run_tlc('MC.tla', cfgfile, env, os.path.join(d, 'meta'), workers=workers, timeout=timeout, heap='12g')
    with open(os.path.join(d, 'tlc.log'), 'w') as f:
        f.write(out)
    gen, dist = tlc.tlc_stats(out)
    run.add_tlc(dist, gen)
    bad = _INV.findall(out)
    m2 = re.search(r'Action property (\w+) is violated|Temporal properties were violated', out)
    completed = 'Model checking completed' in out
    res = {'name': name, 'states': dist, 'transitions': gen, 'wall': round(wall, 1), 'configs': len(inst['cfgs']),
           'violated': bad + ([m2.group(0)] if m2 else []), 'completed': completed, 'dir': d, 'out': out}
    if not completed and not bad and not m2:
        raise tlc.MachineryError(f'TLC did not complete on MC instance {name} (rc={rc}); see {d}/tlc.log\n' + out[-2500:])
    return res


def behaviours(out: str):
    """the BEH lines TLC printed: JSON documents of terminal histories"""
    res = []
    for t in tlc.split_tuple_lines(out):
        m = re.match(r'<<\s*"BEH",\s*"(.*)"\s*>>$', t, re.S)
        if m:
            s = m.group(1).replace(' ', ' ')
            s = bytes(s, 'utf-8').decode('unicode_escape') if '\\\\' in s else s.replace('\\"', '"')
            res.append(json.loads(s))
    return res


# ---------------------------------------------------------------------------------------------------------------------
# spec -> code: every behaviour TLC emitted is re-executed on the real engine; the resulting traces go back through
# spec/TraceHands.tla, so the judgement is TLC's in both directions
# ---------------------------------------------------------------------------------------------------------------------
def spec_of_cfg(c: dict, deck_order, seed=0):
    return {'variant': 'custom', 'n': c['n'], 'seed': seed, 'shufA': c['shufA'], 'shufB': c['shufB'], 'autos': list(c['autos']),
            'mode': 'T' if c['tournament'] else 'C', 'antes': list(c['antes']), 'trim': c['trim'], 'blinds': list(c['blinds']),
            'bringin': c['bringin'], 'sb': 0, 'bb': 0, 'stacks': list(c['stacks0']), 'boards0': c['boards0'], 'rake': dict(c['rake']),
            'streets': c['streets'], 'types': list(c['types']), 'deck': 'STANDARD', 'deck_list': list(c['deckcards']),
            'deck_order': list(deck_order), 'structure': c['structure'], 'werr': c['werr']}


def call_of(rec: dict):
    """the public call that performs a logged operation, leaving the choice of cards to the engine (same deck order)"""
    from .play import A, NOARGS
    k, p = rec['k'], rec['p']
    if k in ('AP', 'BP', 'HK', 'PULL'):
        return {'AP': 'post_ante', 'BP': 'post_blind_or_straddle', 'HK': 'kill_hand', 'PULL': 'pull_chips'}[k], A(p=p)
    if k in ('BC', 'F', 'CC', 'BI', 'PUSH'):
        return {'BC': 'collect_bets', 'F': 'fold', 'CC': 'check_or_call', 'BI': 'post_bring_in', 'PUSH': 'push_chips'}[k], NOARGS
    if k == 'CB':
        return 'burn_card', NOARGS
    if k == 'HD':
        return 'deal_hole', A(p=p, mode='count', n=len(rec['cards']))
    if k == 'BD':
        return 'deal_board', A(mode='count', n=len(rec['cards']))
    if k == 'SD':
        return 'stand_pat_or_discard', A(cards=rec['cards'])
    if k == 'CBR':
        return 'complete_bet_or_raise_to', A(has=True, amt=rec['amt'])
    if k == 'RS':
        return 'select_runout_count', A(p=p, has=rec['amt'] > 0, amt=rec['amt'])
    if k == 'SM':
        return 'show_or_muck_hole_cards', A(p=p, mode='bool', b=bool(rec['cards']))
    raise KeyError(k)


def replay_behaviour(tid, inst, beh):
    """re-execute one emitted behaviour on the real code -> a hand record for TraceHands (+ whether the code followed it)"""
    from . import twins, play, pk
    c = inst['cfgs'][beh['cid'] - 1]['cfg']
    deck = inst['cfgs'][beh['cid'] - 1]['decks'][beh['did'] - 1]
    spec = spec_of_cfg(c, deck)
    st, rec = twins.new_record(tid, spec)
    followed = st is not None
    if st is None:
        return rec, False
    for j, r in enumerate(beh['log']):
        if len(st.operations) > j:
            continue                                   # automation has already done it
        if not st.status:
            followed = False
            break
        op, a = call_of(r)
        ev = play.step(st, op, a, spec['werr'], ())
        rec['steps'].append(ev)
        if ev['out'] != 'ok':
            followed = False
            break
    if followed:
        got = [pk.op_rec(o) for o in st.operations]
        followed = (len(got) == len(beh['log']) and [int(x) for x in st.stacks] == list(beh['stacks']) and bool(st.status) == bool(beh['status']))
    rec['finished'] = not st.status
    return rec, followed
