"""Binding to the implementation: import pokerkit from /repo's working tree, control the shuffles,
project a State to the abstract state of spec/PokerKit.tla.  No property logic lives here: this module only
renames and integer-encodes."""
from __future__ import annotations

import dataclasses
import hashlib
import os
import sys
import warnings
from collections import deque
from fractions import Fraction
from functools import partial

REPO = os.environ.get('POKERKIT_REPO', '/repo')
if REPO not in sys.path:
    sys.path.insert(0, REPO)

import pokerkit  # noqa: E402
import pokerkit.state as pstate  # noqa: E402
import pokerkit.utilities as putil  # noqa: E402
from pokerkit import (  # noqa: E402
    Automation, BettingStructure, Card, Deck, Mode, Opening, State, Street,
)
from pokerkit import hands as phands  # noqa: E402

assert os.path.realpath(pokerkit.__file__).startswith(os.path.realpath(REPO)), pokerkit.__file__

RANKS = '23456789TJQKA'
SUITS = 'cdhs'
UNKNOWN = 52


def card_int(c) -> int:
    if not c:
        return UNKNOWN
    return RANKS.index(c.rank.value) * 4 + SUITS.index(c.suit.value)


_CARDS = {}
for _r in RANKS:
    for _s in SUITS:
        _c = next(Card.parse(_r + _s))
        _CARDS[card_int(_c)] = _c
_CARDS[UNKNOWN] = Card.UNKNOWN


def int_card(i: int):
    return _CARDS[i]


def cards_int(cs):
    return [card_int(c) for c in cs]


TYPE_NAMES = {
    'StandardHighHand': 'StandardHigh', 'StandardLowHand': 'StandardLow', 'ShortDeckHoldemHand': 'ShortDeck',
    'EightOrBetterLowHand': 'EightOrBetter', 'RegularLowHand': 'Regular', 'BadugiHand': 'Badugi',
    'StandardBadugiHand': 'StandardBadugi', 'KuhnPokerHand': 'Kuhn', 'OmahaHoldemHand': 'Omaha',
    'OmahaEightOrBetterLowHand': 'Omaha8', 'GreekHoldemHand': 'Greek',
}
TYPE_CLASSES = {v: getattr(phands, k) for k, v in TYPE_NAMES.items()}

# ---------------------------------------------------------------------------------------------------------
# shuffles: the initial deck order is a recorded permutation; the replenishing shuffle (behind
# pokerkit.utilities.shuffled, which queries call too) is a pure keyed sort so that asking a question never
# changes what the engine deals.
# ---------------------------------------------------------------------------------------------------------


class Shuffles:
    rng = None
    fixed = None
    last_deck = None
    A = 1
    B = 0


def _initial_shuffle(x):
    if Shuffles.fixed is not None:
        # a prescribed deck order (spec -> code replay of TLC behaviours)
        order = {c: j for j, c in enumerate(Shuffles.fixed)}
        ordered = sorted(x, key=lambda c: order[card_int(c)])
        x.clear()
        x.extend(ordered)
    elif Shuffles.rng is not None:
        Shuffles.rng.shuffle(x)
    Shuffles.last_deck = [card_int(c) for c in x]


def _replenish_shuffle(x):
    x.sort(key=lambda c: (card_int(c) * Shuffles.A + Shuffles.B) % 53)


pstate.shuffle = _initial_shuffle
putil.shuffle = _replenish_shuffle

# ---------------------------------------------------------------------------------------------------------
# projection
# ---------------------------------------------------------------------------------------------------------

OP_KINDS = {
    'AntePosting': 'AP', 'BetCollection': 'BC', 'BlindOrStraddlePosting': 'BP', 'CardBurning': 'CB',
    'HoleDealing': 'HD', 'BoardDealing': 'BD', 'StandingPatOrDiscarding': 'SD', 'Folding': 'F',
    'CheckingOrCalling': 'CC', 'BringInPosting': 'BI', 'CompletionBettingOrRaisingTo': 'CBR',
    'RunoutCountSelection': 'RS', 'HoleCardsShowingOrMucking': 'SM', 'HandKilling': 'HK', 'ChipsPushing': 'PUSH',
    'ChipsPulling': 'PULL', 'NoOperation': 'NOP',
}


class Units:
    """chip values are logged as integers in units of 1/den.  den = 1: integer chips.  For runs with fractional chip types
    (Fraction-valued amounts, for which the engine divides exactly) den is a number with many small factors, so that every
    split of a pot over boards, hand types and winners is a whole number of units."""
    den = 1
    FINE = 2 ** 4 * 3 ** 3 * 5 * 7          # 15120
    kind = 'fraction'                       # chip type of a fractional run: 'fraction' | 'float' | 'decimal'

    @staticmethod
    def conv(x):
        """a whole or binary-exact amount as the chip type of the run (float and Decimal hold k/2^m exactly)"""
        f = Fraction(x)
        if Units.kind == 'float':
            r = float(f)
        elif Units.kind == 'decimal':
            from decimal import Decimal
            r = Decimal(f.numerator) / Decimal(f.denominator)
        else:
            return f
        if Fraction(r) != f:
            raise OffGrid(f'{x!r} is not exact as {Units.kind}')
        return r

    @staticmethod
    def make(v):
        return Units.conv(Fraction(v, Units.den))

    @staticmethod
    def quantum():
        """the smallest step (in logging units) by which the drivers vary an amount: one unit, except for float and Decimal chips,
        where it is a sixteenth of a chip - exact in both types, which 1/15120 is not"""
        return Units.den // 16 if Units.den != 1 and Units.kind != 'fraction' else 1


class OffGrid(ValueError):
    """a chip value of a float/Decimal run that is not a whole number of logging units (a pot divided by 3, 5, 7 in binary or
    decimal floating point is rounded): the hand cannot be logged exactly and is left out, counted"""


def chip(v) -> int:
    if isinstance(v, bool):
        raise TypeError(v)
    if isinstance(v, int):
        return v * Units.den
    f = Fraction(v) * Units.den
    if f.denominator != 1:
        raise OffGrid(f'chip value {v!r} not on the 1/{Units.den} grid')
    return int(f)


def chips(vs):
    return [chip(v) for v in vs]


def p1(i):
    return 0 if i is None else i + 1


def op_rec(o) -> dict:
    k = OP_KINDS[type(o).__name__]
    r = {'k': k, 'p': 0, 'amt': 0, 'cards': [], 'sts': [], 'amts': [], 'pot': 0, 'board': 0, 'type': 0}
    if hasattr(o, 'player_index'):
        r['p'] = o.player_index + 1
    if k in ('AP', 'BP', 'CC', 'BI', 'CBR', 'PULL'):
        r['amt'] = chip(o.amount)
    elif k == 'BC':
        r['amts'] = chips(o.bets)
    elif k == 'CB':
        r['cards'] = [card_int(o.card)]
    elif k == 'HD':
        r['cards'] = cards_int(o.cards)
        r['sts'] = [bool(s) for s in o.statuses]
    elif k in ('BD', 'SD'):
        r['cards'] = cards_int(o.cards)
    elif k == 'RS':
        r['amt'] = o.runout_count or 0
    elif k == 'SM':
        r['cards'] = cards_int(o.hole_cards)
    elif k == 'PUSH':
        r['amts'] = chips(o.amounts)
        r['pot'] = o.pot_index + 1
        r['board'] = p1(o.board_index)
        r['type'] = p1(o.hand_type_index)
    return r


def project(st: State, log_from: int = 0) -> dict:
    n = st.player_count
    return {
        'status': bool(st.status),
        'street': p1(st.street_index),
        'stacks': chips(st.stacks), 'bets': chips(st.bets), 'payoffs': chips(st.payoffs),
        'alive': [bool(x) for x in st.statuses],
        'deck': cards_int(st.deck_cards),
        'board': [cards_int(r) for r in st.board_cards],
        'hole': [cards_int(h) for h in st.hole_cards],
        'up': [[bool(x) for x in u] for u in st.hole_card_statuses],
        'burn': cards_int(st.burn_cards), 'muck': cards_int(st.mucked_cards),
        'disc': [cards_int(d) for d in st.discarded_cards],
        'antePend': [bool(x) for x in st.ante_posting_statuses],
        'collPend': bool(st.bet_collection_status),
        'blindPend': [bool(x) for x in st.blind_or_straddle_posting_statuses],
        'burnPend': bool(st.card_burning_status),
        'holePend': [[bool(x) for x in d] for d in st.hole_dealing_statuses],
        'boardPend': [int(x) for x in st.board_dealing_counts],
        'drawPend': [bool(x) for x in st.standing_pat_or_discarding_statuses],
        'opener': p1(st.opener_index), 'bringSt': bool(st.bring_in_status), 'complSt': bool(st.completion_status),
        'actors': [i + 1 for i in st.actor_indices],
        'raiseAmt': chip(st.completion_betting_or_raising_amount),
        'raiseCnt': int(st.completion_betting_or_raising_count),
        'acted': [i in st.acted_player_indices for i in range(n)],
        'consec': chips(st.consecutive_all_in_completion_betting_or_raising_amounts),
        'selPend': [bool(x) for x in st.runout_count_selector_statuses],
        'runout': st.runout_count or 0, 'runFlag': bool(st.runout_count_selection_flag),
        'showq': [i + 1 for i in st.showdown_indices],
        'killPend': [bool(x) for x in st.hand_killing_statuses],
        'frozen': st._pots is not None,
        'fpots': [] if st._pots is None else [
            {'raked': chip(p.raked_amount), 'unraked': chip(p.unraked_amount), 'players': [i + 1 for i in p.player_indices]}
            for p in st._pots],
        'subpots': [[chip(a), k + 1, p1(b), p1(t)] for (a, k, b, t) in st._sub_pots],
        'pullPend': [bool(x) for x in st.chips_pulling_statuses],
        'retIdx': p1(st.street_return_index), 'retCnt': int(st.street_return_count or 0),
        'allin': bool(st.all_in_status),
        'fault': '',
        'log': [op_rec(o) for o in st.operations[log_from:]],
    }


def digest(st: State) -> str:
    """hash over ALL dataclass fields of the State (also those the projection does not carry)"""
    parts = []
    for f in dataclasses.fields(st):
        v = getattr(st, f.name)
        if callable(v) and not isinstance(v, (tuple, list, deque, set)):
            v = getattr(v, '__name__', None) or repr(type(v))
        if isinstance(v, set):
            v = sorted(v)
        parts.append((f.name, repr(v)))
    return hashlib.md5(repr(parts).encode()).hexdigest()


def project_cfg(st: State, *, werr: bool, rake: dict | None = None, extra: dict | None = None) -> dict:
    streets = []
    for s in st.streets:
        streets.append({
            'burn': bool(s.card_burning_status), 'hole': [bool(x) for x in s.hole_dealing_statuses],
            'board': int(s.board_dealing_count), 'draw': bool(s.draw_status), 'opening': s.opening.value,
            'minbet': chip(s.min_completion_betting_or_raising_amount),
            'maxcnt': -1 if s.max_completion_betting_or_raising_count is None else int(s.max_completion_betting_or_raising_count),
        })
    cfg = {
        'n': st.player_count, 'streets': streets, 'structure': st.betting_structure.value,
        'trim': bool(st.ante_trimming_status), 'antes': chips(st.antes), 'blinds': chips(st.blinds_or_straddles),
        'bringin': chip(st.bring_in), 'stacks0': chips(st.starting_stacks),
        'tournament': st.mode == Mode.TOURNAMENT, 'boards0': int(st.starting_board_count),
        'types': [TYPE_NAMES[t.__name__] for t in st.hand_types],
        'autos': [a.value for a in st.automations],
        'rake': rake or {'num': 0, 'den': 1, 'cap': -1, 'nfnd': False},
        'werr': bool(werr), 'shufA': Shuffles.A, 'shufB': Shuffles.B, 'typesPerPot': True, 'exact': Units.den != 1,
    }
    if extra:
        cfg.update(extra)
    return cfg


def make_rake(rk: dict):
    if not rk or (rk['num'] == 0 and not rk['nfnd']):
        return putil.rake
    kw = {'percentage': Fraction(rk['num'], rk['den']), 'no_flop_no_drop': rk['nfnd']}
    if rk['cap'] >= 0:
        kw['cap'] = rk['cap']
    return partial(putil.rake, **kw)


class Tracer:
    """run-time wrapper of State._update: a chips/cards snapshot after every single operation (also the automated
    ones inside a cascade).  Installed only while POKERKIT_VERIF_TRACE=1."""
    active = None
    _orig = None

    @classmethod
    def install(cls):
        if cls._orig is not None:
            return
        cls._orig = State._update

        def _update(self, operation=None):
            cls._orig(self, operation)
            if operation is not None and cls.active is not None:
                cls.active(self, operation)
        State._update = _update


if os.environ.get('POKERKIT_VERIF_TRACE') == '1':
    Tracer.install()
