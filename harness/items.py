"""Function-level conformance (spec/TraceItems.tla): records {kind, question, the code's answer} judged by TLC."""
from __future__ import annotations

import json
import os
import re
import time
from concurrent.futures import ThreadPoolExecutor

from . import tlc
from .runner import Run


def run_items(run: Run, items, name: str, *, jvms=4, workers=4, timeout=3000, max_bytes=10_000_000,
              module='TraceItems.tla', cfg='TraceItems.cfg', sig=None):
    """items: list of dicts with 'kind'.  Returns list of mismatches [(index, kind, what, text)]"""
    d = tlc.fresh_dir(name)
    lines = [json.dumps(x, separators=(',', ':')) for x in items]
    total = sum(len(x) + 1 for x in lines)
    nsh = max(jvms, total // max_bytes + 1)
    nsh = min(nsh, max(1, len(lines)))
    shards = [list(range(j, len(lines), nsh)) for j in range(nsh)]
    paths = []
    for j, idxs in enumerate(shards):
        p = os.path.join(d, f'items_{j}.ndjson')
        with open(p, 'w') as f:
            for i in idxs:
                f.write(lines[i])
                f.write('\n')
        paths.append(p)

    eval_errors = []

    def one(j):
        # an item on which the specification cannot be evaluated at all (the code's answer is not even of the expected
        # shape) stops TLC with an evaluation error: that item is reported, taken out, and the shard is judged again
        outs = []
        for attempt in range(10):
            rc, out, wall = tlc.run_tlc(module, cfg, {'ITEMS': paths[j]}, os.path.join(d, f'meta_{j}_{attempt}'), workers=workers,
                                        timeout=timeout)
            with open(os.path.join(d, f'tlc_{j}_{attempt}.log'), 'w') as f:
                f.write(out)
            if 'Model checking completed' in out or 'Error:' not in out:
                return j, rc, out
            mi = re.findall(r'^/\\ i = (\d+)', out, re.M)
            if not mi:
                return j, rc, out
            k = int(mi[-1])
            reason = re.search(r'Reason:\s*(.*?)\n\d+ states generated', out, re.S)
            eval_errors.append({'index': shards[j][k - 1], 'kind': 'eval-error',
                                'text': 'the specification cannot be evaluated on this answer: ' + (reason.group(1) if reason else '')[:600]})
            with open(paths[j]) as f:
                ls = f.readlines()
            del ls[k - 1]
            del shards[j][k - 1]
            with open(paths[j], 'w') as f:
                f.writelines(ls)
        return j, rc, out
    t0 = time.time()
    with ThreadPoolExecutor(max_workers=jvms) as ex:
        results = list(ex.map(one, range(nsh)))
    mism = []
    for j, rc, out in results:
        if rc != 0 or 'Model checking completed' not in out:
            raise tlc.MachineryError(f'TLC rc={rc} on {name} shard {j}; see {d}/tlc_{j}.log\n' + out[-2500:])
        gen, dist = tlc.tlc_stats(out)
        if dist != 2 * len(shards[j]):
            raise tlc.MachineryError(f'{name} shard {j}: {dist} states for {len(shards[j])} items (expected {2 * len(shards[j])})')
        run.add_tlc(dist, gen)
        for t in tlc.split_tuple_lines(out):
            m = re.match(r'<<\s*"MISMATCH",\s*(\d+),\s*"([^"]*)",\s*(.*)>>$', t, re.S)
            if m:
                k = int(m.group(1))
                mism.append({'index': shards[j][k - 1], 'kind': m.group(2), 'text': m.group(3).strip()})
    mism.extend(eval_errors)
    run.evaluations += len(items)
    nv = 0
    for m in mism:
        it = items[m['index']]
        s = (sig(it, m) if sig else f"item:{m['kind']}")
        if run.violation(s, f"{name} item {m['index']}: {m['text'][:1200]}", {'kind': 'item', 'item': it}):
            nv += 1
    run.part(name, items=len(items), mismatches=len(mism), violations=nv, wall=round(time.time() - t0, 1))
    return mism
