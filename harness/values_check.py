"""C19: value normalisation, constructor refusals, card text, divmod / rake against spec/Values.tla (judged by TLC)."""
from __future__ import annotations

import itertools
import math
import random
import warnings
from fractions import Fraction

from . import pk
from .pk import card_int, int_card
from .items import run_items
from .runner import Run


def pyval(w):
    if w['repr'] == 'scalar':
        return w['v']
    if w['repr'] == 'seq':
        kind = w.get('as', 'list')
        s = list(w['s'])
        return s if kind == 'list' else tuple(s) if kind == 'tuple' else (x for x in s) if kind == 'gen' else iter(s)
    return {k: v for k, v in zip(w['keys'], w['vals'])} if len(set(w['keys'])) == len(w['keys']) else None


def writings(vec, rng):
    """different ways of writing the per-player vector vec"""
    n = len(vec)
    out = [{'repr': 'seq', 's': list(vec), 'as': 'list'}, {'repr': 'seq', 's': list(vec), 'as': 'tuple'},
           {'repr': 'seq', 's': list(vec), 'as': 'gen'}]
    if len(set(vec)) == 1:
        out.append({'repr': 'scalar', 'v': vec[0]})
    k = n
    while k > 0 and vec[k - 1] == 0:
        k -= 1
    if k < n:
        out.append({'repr': 'seq', 's': list(vec[:k]), 'as': 'list'})          # trailing zeros omitted
    nz = [i for i in range(n) if vec[i] != 0]
    out.append({'repr': 'map', 'keys': nz, 'vals': [vec[i] for i in nz]})
    out.append({'repr': 'map', 'keys': [i - n for i in nz], 'vals': [vec[i] for i in nz]})     # counted from the button
    out.append({'repr': 'map', 'keys': [i if rng.random() < 0.5 else i - n for i in nz], 'vals': [vec[i] for i in nz]})
    return out


def clean_items(run, rng, tier):
    from pokerkit.utilities import clean_values
    items = []
    for n in (2, 3, 4, 5):
        vecs = list(itertools.product((0, 1, 2), repeat=n)) if n <= 3 or tier != 'quick' else [tuple(rng.choice((0, 1, 2, 5)) for _ in range(n)) for _ in range(60)]
        for vec in vecs:
            for w in writings(list(vec), rng):
                try:
                    got, raised = list(clean_values(pyval(w), n)), False
                except Exception:  # noqa: BLE001
                    got, raised = [], True
                ww = {'repr': w['repr'], 'v': w.get('v', 0), 's': w.get('s', []), 'keys': w.get('keys', []), 'vals': w.get('vals', [])}
                items.append({'kind': 'clean', 'w': ww, 'n': n, 'got': got, 'raised': raised, 'as': w.get('as', '')})
                run.count('clean:' + w['repr'])
        # longer than n, and keys that name the same seat twice via a list of pairs are not expressible as a dict: skipped
        for _ in range(20):
            s = [rng.choice((0, 1, 2)) for _ in range(n + rng.randint(1, 3))]
            got = list(clean_values(s, n))
            items.append({'kind': 'clean', 'w': {'repr': 'seq', 'v': 0, 's': s, 'keys': [], 'vals': []}, 'n': n, 'got': got, 'raised': False, 'as': 'list'})
    return items


def layout_items(run, rng, tier):
    from pokerkit import Automation, BettingStructure, Deck, Mode, Opening, State, Street, NoLimitTexasHoldem, FixedLimitSevenCardStud
    from pokerkit import StandardHighHand
    items = []
    count = 600 if tier == 'quick' else 6000
    for _ in range(count):
        n = rng.randint(1, 5)
        r = rng.random()
        antes = [rng.choice((0, 0, 1, 2)) for _ in range(n)]
        blinds = [0] * n
        bringin = 0
        if r < 0.6:
            blinds = ([1, 2] + [rng.choice((0, 0, 4, -2)) for _ in range(n)])[:n]
        elif r < 0.8:
            bringin = rng.choice((1, 1, 2, 3))
        if rng.random() < 0.08:
            antes[rng.randrange(n)] = -1
        if rng.random() < 0.08:
            bringin = rng.choice((-1, 1))
            if rng.random() < 0.5:
                blinds = ([1, 2] + [0] * n)[:n]         # blinds together with a bring-in
        stacks = [rng.choice((1, 5, 20, 20, 100)) for _ in range(n)]
        if rng.random() < 0.08:
            stacks[rng.randrange(n)] = rng.choice((0, -5))
        if rng.random() < 0.1:
            antes, blinds, bringin = [0] * n, [0] * n, 0          # no forced bet at all
        minbet = rng.choice((2, 2, 4))
        results = []
        street = Street(False, (False, False), 0, False, Opening.POSITION, minbet, None)
        st2 = Street(True, (), 3, False, Opening.POSITION, minbet, None)
        wa, wb, ws = writings(antes, rng), writings(blinds, rng), writings(stacks, rng)
        for j in range(max(len(wa), len(wb), len(ws))):
            a, b, s = wa[j % len(wa)], wb[j % len(wb)], ws[j % len(ws)]
            how = f"antes as {a['repr']}/{a.get('as', '')} blinds as {b['repr']} stacks as {s['repr']}/{s.get('as', '')}"
            try:
                with warnings.catch_warnings():
                    warnings.simplefilter('ignore')
                    st = State((), Deck.STANDARD, (StandardHighHand,), (street, st2), BettingStructure.NO_LIMIT, True, pyval(a), pyval(b),
                               bringin, pyval(s), n)
                results.append({'how': how, 'raised': False, 'antes': [int(x) for x in st.antes],
                                'blinds': [int(x) for x in st.blinds_or_straddles], 'stacks': [int(x) for x in st.starting_stacks]})
            except ValueError:
                results.append({'how': how, 'raised': True, 'antes': [], 'blinds': [], 'stacks': []})
        # through a game class, and one game object reused for two table sizes
        if bringin == 0 and n >= 2:
            for a in (wa[0], wa[-2], wa[-1]):
                try:
                    with warnings.catch_warnings():
                        warnings.simplefilter('ignore')
                        g = NoLimitTexasHoldem((), True, pyval(a) if a['repr'] != 'seq' else list(a['s']), list(blinds), minbet)
                        other = g([50] * (n + 2), n + 2)           # the same game object first serves a bigger table
                        st = g(list(stacks), n)
                    results.append({'how': f"game object reused, antes as {a['repr']}", 'raised': False, 'antes': [int(x) for x in st.antes],
                                    'blinds': [int(x) for x in st.blinds_or_straddles], 'stacks': [int(x) for x in st.starting_stacks]})
                except ValueError:
                    results.append({'how': f"game object reused, antes as {a['repr']}", 'raised': True, 'antes': [], 'blinds': [], 'stacks': []})
        items.append({'kind': 'layout', 'n': n, 'antes': antes, 'blinds': blinds, 'bringin': bringin, 'stacks': stacks, 'minbet': minbet,
                      'results': results})
        run.count('layouts')
        run.count('layout_results', len(results))
        run.nontrivial.add(('layout', n, tuple(antes), tuple(blinds), bringin, tuple(stacks)))
    return items


R, S = '23456789TJQKA', 'cdhs'


def vcid(c) -> int:
    """all 70 cards over ranks x suits incl. the unknown rank and the unknown suit: 0..51 as everywhere, 52 = '??',
    53 + r = rank r of an unknown suit ('A?'), 66 + s = unknown rank of suit s ('?s')"""
    r, s = c.rank.value, c.suit.value
    if r == '?' and s == '?':
        return 52
    if s == '?':
        return 53 + R.index(r)
    if r == '?':
        return 66 + S.index(s)
    return R.index(r) * 4 + S.index(s)


def vtext(i: int) -> str:
    if i < 52:
        return R[i // 4] + S[i % 4]
    if i == 52:
        return '??'
    return R[i - 53] + '?' if i < 66 else '?' + S[i - 66]


def vcard(i: int):
    from pokerkit import Card, Rank, Suit
    t = vtext(i)
    return Card(Rank(t[0]), Suit(t[1]))


def spell(cards, rng):
    """a spelling of the cards: rank char + suit char, '10' for a ten, cards run together or separated by blanks / commas"""
    parts = []
    for c in cards:
        if c >= 52:
            t = vtext(c)
        else:
            r = R[c // 4]
            t = ('10' if r == 'T' and rng.random() < 0.5 else r) + S[c % 4]
        parts.append(t)
    text = ''
    for j, t in enumerate(parts):
        text += t
        if j < len(parts) - 1:
            text += rng.choice(['', '', ' ', ',', ', ', '  '])
    return text


def card_items(run, rng, tier):
    from pokerkit import Card
    items = []

    def ask(text, cards, valid):
        try:
            got, raised = [vcid(c) for c in Card.parse(text)], False
        except ValueError:
            got, raised = [], True
        except Exception:  # noqa: BLE001
            got, raised = [-1], False
        items.append({'kind': 'cards', 'text': text, 'cards': cards, 'valid': valid, 'got': got, 'raised': raised})
    for c in range(70):
        ask(repr(vcard(c)), [c], True)
        run.count('card_repr')
        if c > 52:
            run.count('card_partly_unknown')
        if c < 52 and c // 4 == 8:
            ask('10' + S[c % 4], [c], True)
    for _ in range(1500 if tier == 'quick' else 20000):
        cs = [rng.choice(list(range(52)) + [52, 52, rng.randrange(53, 70)]) for _ in range(rng.randint(1, 7))]
        ask(spell(cs, rng), cs, True)
        run.count('card_strings')
    for bad in ['A', 'Asx', '1s', 'Ax', 'AsK', 'as', 'AS', 'Zs', '0s', '11s', 'A s']:
        ask(bad, [], False)
        run.count('card_invalid')
    # other card-like objects through Card.clean
    for _ in range(60):
        cs = [rng.randrange(70) if rng.random() < 0.3 else rng.randrange(52) for _ in range(rng.randint(1, 5))]
        objs = [vcard(c) for c in cs]
        for form in (tuple(objs), list(objs), (x for x in objs), objs[0] if len(objs) == 1 else tuple(objs)):
            got = [vcid(c) for c in Card.clean(form)]
            items.append({'kind': 'cards', 'text': 'objects', 'cards': cs, 'valid': True, 'got': got, 'raised': False})
    return items


def limbs(x):
    """a non-negative integer as base-10000 limbs, least significant first (TLC's integers are 32-bit)"""
    x = int(x)
    out = []
    while x:
        out.append(x % 10000)
        x //= 10000
    return out


def arith_items(run, rng, tier):
    from pokerkit.utilities import divmod as pdivmod, rake as prake
    items = []
    for a in range(0, 41):
        for d in range(1, 10):
            q, r = pdivmod(a, d)
            items.append({'kind': 'divmod', 'integral': True, 'a': a, 'd': d, 'q': int(q), 'r': int(r), 'qd': 0})
            fq, fr = pdivmod(Fraction(a, 4), d)
            # exact mode: everything scaled by 4 * d so that it is integral
            items.append({'kind': 'divmod', 'integral': False, 'a': a * d, 'd': d, 'q': 0, 'r': int(fr * 4 * d), 'qd': int(fq * d * 4 * d)})
            run.count('divmod_cases')
    # chips of the inexact number types (float, Decimal): the quotient is rounded, the remainder carries what the rounding left,
    # and the parts - `divisor` shares of the quotient, as the type multiplies them, plus the remainder - are the amount again.
    # The harness converts the native numbers to exact rationals over one denominator; TLC adds them up as multi-limb integers.
    from decimal import Decimal
    cents = list(range(1, 4000, 37 if tier == 'quick' else 3))
    for c in cents:
        for d in range(1, 10):
            for typ, a in (('float', c / 100), ('float', float(c)), ('decimal', Decimal(c) / 100), ('decimal', Decimal(c))):
                q, r = pdivmod(a, d)
                share = q * d
                fa, fs, fr = Fraction(a), Fraction(share), Fraction(r)
                den = math.lcm(fa.denominator, fs.denominator, fr.denominator)
                items.append({'kind': 'divmodx', 'typ': typ, 'text': repr(a), 'd': d, 'A': limbs(fa * den), 'P': limbs(fs * den),
                              'R': limbs(abs(fr) * den), 'rneg': fr < 0, 'qtext': repr(q), 'rtext': repr(r)})
                run.count('divmod_inexact_cases')
                if fs != fa:        # the shares alone miss the amount: the remainder has something to carry
                    run.count('divmod_rounding_residue')
    for amount in range(0, 41):
        for (pn, pd) in [(0, 1), (1, 8), (1, 10), (1, 20), (3, 10), (1, 2), (1, 1), (5, 100)]:
            for cap in (-1, 0, 1, 3):
                kw = {'percentage': Fraction(pn, pd)}
                if cap >= 0:
                    kw['cap'] = cap
                rk, un = prake(amount, **kw)
                items.append({'kind': 'rake', 'amount': amount, 'pnum': pn, 'pden': pd, 'cap': cap, 'raked': int(rk), 'unraked': int(un)})
                run.count('rake_cases')
        rk, un = prake(amount, percentage=0.1)
        items.append({'kind': 'rake', 'amount': amount, 'pnum': 1, 'pden': 10, 'cap': -1, 'raked': int(rk), 'unraked': int(un)})
    return items


def check_C19(run: Run):
    rng = random.Random(run.seed * 31 + 19)
    sig = lambda it, m: f"values:{it['kind']}"      # noqa: E731
    for name, fn in (('clean', clean_items), ('layouts', layout_items), ('cards', card_items), ('arith', arith_items)):
        items = fn(run, rng, run.tier)
        run.sample(items[len(items) // 2])
        run_items(run, items, 'C19_' + name, sig=sig)
    run.rule = ('clean_values on all vectors over {0,1,2}^n (n<=3, sampled above) in every way of writing them; layouts (valid and '
                'each documented kind of invalid) constructed through State in every combination of writings and through one game '
                'object reused for two table sizes; every card repr over ranks x suits incl. the unknown rank and the unknown suit (70), random card strings with mixed separators and "10", invalid '
                'strings; divmod for amount<=40 x divisor<=9 (integral and exact) and for float and Decimal amounts up to 40.00 in cents and in whole chips x divisor<=9 (parts re-added exactly), rake for amount<=40 x 8 percentages x 4 caps. '
                'The spelling renderer and the construction of the Python objects are part of the trusted harness')
    run.need('clean:map', 'layouts', 'card_strings', 'rake_cases', 'divmod_rounding_residue', 'card_partly_unknown')
