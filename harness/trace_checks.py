"""Code -> spec conformance on whole hands (spec/TraceHands.tla), per property.

The Python side generates hands on the real engine (drivers), counts which mechanisms were exercised (counting only),
hands the records to TLC and turns TLC's MISMATCH lines into violations.  Every judgement is TLC's."""
from __future__ import annotations

import json
import os
import random
import time

from . import pk, play, games, walk, tlc
from .runner import Run


def mechanisms(run: Run, rec: dict):
    """which rule-relevant situations did this hand go through (for the vacuity guards and the evidence)"""
    c = run.count
    cfg = rec.get('cfg', {})
    if rec['create']['out'] != 'ok':
        c('create_refused')
        return
    evs = [rec['create']] + rec['steps']
    if rec.get('spec', {}).get('chips'):
        c('hands_chip_type_' + rec['spec']['chips'])
    prev_bets = None
    seen_board = False
    for ev in evs:
        if ev.get('op') and ev['op'] != 'none':
            if ev['out'] == 'ok':
                c('call_ok')
            elif ev['out'] in ('ValueError', 'UserWarning'):
                c('call_refused')
                c('refused:' + ev['op'])
            else:
                c('call_other_exception')
        for pr in ev.get('probes', ()):
            c('probe')
            if not pr['r']:
                c('probe_no')
        mic = ev.get('micro', [])
        if len({m['op']['k'] for m in mic}) >= 3:
            c('cascade_3_kinds_in_one_call')
        for m in mic:
            o = m['op']
            k = o['k']
            c('op:' + k)
            if k == 'BC' and prev_bets is not None and sum(o['amts']) < sum(prev_bets) and sum(m['bets']) == 0:
                c('uncalled_bet_returned')
            if k == 'PUSH':
                pos = [a for a in o['amts'] if a > 0]
                if len(pos) >= 2:
                    c('tie_split')
                    if len(set(pos)) > 1:
                        c('odd_chip')
                if o['type'] >= 2:
                    c('push_second_hand_type')
                if o['board'] >= 2:
                    c('push_second_board')
                if o['pot'] >= 2:
                    c('push_side_pot')
            if k == 'RS' and o['amt'] >= 2:
                c('runout_2plus_requested')
            if k == 'BD':
                seen_board = True
            if k == 'RS' and seen_board:
                c('runout_choice_after_a_board_street')
            if k == 'SD' and o['cards']:
                c('discard')
            if k == 'SM' and not o['cards']:
                c('muck')
            if len(m['pots']) >= 2:
                c('two_pots_snapshot')
            if any(p['raked'] > 0 for p in m['pots']):
                c('rake_taken')
            prev_bets = m['bets']
        post = ev.get('post') or {}
        if post:
            if post.get('consec'):
                c('short_all_in_raise_pending')
            if post.get('runout', 0) >= 2:
                c('runout_agreed_2plus')
            if post.get('bringSt'):
                c('bring_in_pending')
            if not post.get('status', True):
                c('hand_finished')
    n = cfg.get('n', 0)
    if n:
        c(f'players:{n}')
    c('variant:' + str(cfg.get('variant')))
    if 'written' in cfg:
        c('code-written' if cfg['written'] else 'code-refused:' + str(cfg.get('variant')))
    if cfg.get('tournament'):
        c('mode:tournament')
    else:
        c('mode:cash')


def replenish_count(rec):
    k = 0
    prev = None
    for ev in [rec['create']] + rec['steps']:
        post = ev.get('post') or {}
        if post and 'deck' in post:
            if prev is not None and len(post['deck']) > prev:
                k += 1
            prev = len(post['deck'])
    return k


def gen_hands(run: Run, rng: random.Random, count: int, tid0: int, spec_kw: dict, pol_kw: dict, werr_p=0.7, spec_fn=None):
    recs = []
    j = tries = 0
    while j < count and tries < 4 * count + 20:
        tries += 1
        spec = (spec_fn or games.random_spec)(rng, **spec_kw)
        spec.setdefault('werr', rng.random() < werr_p)
        pol = walk.Policy(**pol_kw)
        try:
            rec = walk.play_hand(tid0 + j, spec, rng, pol)
        except pk.OffGrid:
            # float / Decimal chips: a pot was divided by 3, 5 or 7 and the shares are rounded - not loggable exactly, left out
            run.count('hands_left_out_inexact_division', 1)
            continue
        j += 1
        mechanisms(run, rec)
        r = replenish_count(rec)
        if r:
            run.count('deck_replenished', r)
        recs.append(rec)
    return recs


def signature(m: dict) -> str:
    """a stable description of the failing situation (matched against known_findings.json)"""
    names = ','.join(m['names'])
    if m.get('orphan'):
        return 'orphan-pot'
    if m['clause'] in ('rule', 'microrule', 'steprule', 'model-fault'):
        return f"{m['clause']}:{names}"
    return f"{m['clause']}:{m['op']}:{names}"


def mark_orphans(mismatches):
    """A hand in which the model itself declares a pot without any eligible live player (fault OrphanPot) is in territory the
    engine has no rule for: that disagreement and whatever follows it in the same hand carry the signature of the known
    finding.  What PRECEDES it (the cause, if the situation was produced by a defect) does not."""
    first = {}
    for m in mismatches:
        if 'OrphanPot' in m['names'] or ('fault' in m['names'] and 'OrphanPot' in m.get('info', '')):
            key = (m['tid'], m['step'] // 1000)          # the two runs of a pair number their steps separately (B: 1000 +)
            first[key] = min(first.get(key, 10 ** 9), m['step'])
    tids = {k[0] for k in first}
    for m in mismatches:
        key = (m['tid'], m['step'] // 1000)
        if (key in first and m['step'] >= first[key]) or (m['tid'] in tids and m['clause'].startswith('twin-')):
            # (the relation between two runs is decided after both: if one of them ended in the ownerless-pot situation the
            # relation is not asserted either)
            m['orphan'] = True


def short_hand(rec, upto=None):
    """a readable rendering of a hand for samples / replay files"""
    rec = dict(rec, spec=dict(rec.get('spec') or {}))
    steps = rec['steps'] if upto is None else rec['steps'][:upto]
    calls = []
    for ev in steps:
        if ev['op'] == 'none':
            continue
        a = ev['a']
        arg = []
        if a['p']:
            arg.append(f"p={a['p']}")
        if a['has']:
            arg.append(f"amt={a['amt']}")
        if a['mode'] == 'cards':
            arg.append('cards=' + ''.join(repr(pk.int_card(x)) if x < 52 else '??' for x in a['cards']))
        if a['mode'] == 'count':
            arg.append(f"n={a['n']}")
        if a['mode'] == 'bool':
            arg.append(f"show={a['b']}")
        if ev['op'] == 'stand_pat_or_discard':
            arg.append('discard=' + ''.join(repr(pk.int_card(x)) if x < 52 else '??' for x in a['cards']))
        calls.append(f"{ev['op']}({', '.join(arg)})" + ('' if ev['out'] == 'ok' else '!' + ev['out']))
    return {'spec': rec['spec'], 'calls': calls}


def validate(run: Run, recs, name: str, prop: str, jobs=16, timeout=3000, env=None):
    res = tlc.validate_traces(recs, name, prop=prop, jobs=jobs, timeout=timeout, env=env)
    run.add_tlc(res['states'], res['transitions'])
    run.traces += len(recs)
    steps = sum(len(r['steps']) for r in recs)
    probes = sum(len(ev['probes']) for r in recs for ev in r['steps'])
    run.evaluations += steps + probes
    by_tid = {r['tid']: r for r in recs}
    nviol = 0
    mark_orphans(res['mismatches'])
    for m in res['mismatches']:
        rec = by_tid[m['tid']]
        what = f"hand {m['tid']} step {m['step']} clause {m['clause']} op {m['op']} names {m['names']} info {m['info'][:1200]}"
        rp = {'kind': 'hand', 'tid': m['tid'], 'step': m['step'], 'clause': m['clause'], 'names': m['names'],
              'hand': short_hand(rec, m['step']), 'record': strip_record(rec, m['step'])}
        if run.violation(signature(m), what, rp):
            nviol += 1
    run.part(name, hands=len(recs), steps=steps, probes=probes, tlc_states=res['states'], mismatches=len(res['mismatches']),
             violations=nviol, tlc_wall=round(res['wall'], 1))
    return res


def strip_record(rec, upto):
    """the part of a hand record needed to re-run it: spec, deck order, the calls up to the failing step"""
    return {'tid': rec['tid'], 'spec': rec['spec'], 'deck0': rec['deck0'],
            'calls': [{'op': ev['op'], 'a': ev['a']} for ev in rec['steps'][:max(upto, 0)] if ev['op'] != 'none']}


def replay_record(rp: dict, level=1):
    """re-execute a stripped record on the current tree -> a fresh full record (with probes before every call)"""
    spec = rp['spec']
    rng = random.Random(0)
    werr = spec.get('werr', True)
    mic = []
    pk.Tracer.active = lambda s, o: mic.append(play.snapshot(s, o))
    try:
        with play.filt(werr):
            st = games.create(spec)
    finally:
        pk.Tracer.active = None
    rec = {'tid': 1, 'spec': spec, 'deck0': pk.Shuffles.last_deck, 'steps': []}
    rec['cfg'] = pk.project_cfg(st, werr=werr, rake=spec.get('rake'),
                                extra={'deckcards': sorted(pk.card_int(c) for c in st.deck), 'variant': spec['variant'], 'sb': pk.chip(spec.get('sb', 0)), 'bb': pk.chip(spec.get('bb', 0)), 'deck': games.deck_name(st.deck)})
    rec['create'] = {'out': 'ok', 'post': play.observe(st, 0), 'micro': mic}
    if spec.get('via_phh') == 'written':
        rec['cfg']['written'] = games.Last.written or ''
    for call in rp['calls']:
        probes, psame = play.probes(st, walk.probe_universe(st, rng, level), werr)
        ev = play.step(st, call['op'], call['a'], werr, probes, psame=psame)
        rec['steps'].append(ev)
        if ev['out'].startswith('Other:'):
            break
    return rec


def repo_hands(run: Run):
    """driver D-repo: the hands the repository's own tests play, recorded by harness/repo_plugin.py while pytest runs them"""
    import subprocess
    import sys
    repo = os.environ.get('POKERKIT_REPO', '/repo')
    out = os.path.join(tlc.OUT, f'repo_traces_{run.pid}.ndjson')
    os.makedirs(tlc.OUT, exist_ok=True)
    env = dict(os.environ, PYTHONPATH=tlc.VERIF, POKERKIT_REPO=repo, VERIF_REPO_TRACES=out, PYTHONDONTWRITEBYTECODE='1')
    cmd = ['/venv/bin/python', '-m', 'pytest', '-q', '-p', 'no:cacheprovider', '-p', 'harness.repo_plugin', '--timeout=900',
           'pokerkit/tests/test_state.py', 'pokerkit/tests/test_games.py', 'pokerkit/tests/test_papers.py', 'pokerkit/tests/test_rules.py',
           'pokerkit/tests/test_wsop', 'pokerkit/tests/test_notation.py']
    p = subprocess.run(cmd, cwd=repo, env=env, capture_output=True, text=True, timeout=1800)
    if not os.path.exists(out):
        raise tlc.MachineryError('the recording plugin produced no traces:\n' + (p.stdout + p.stderr)[-1500:])
    recs = [json.loads(line) for line in open(out)]
    meta = json.load(open(out + '.meta'))
    for r in recs:
        mechanisms(run, r)
    run.count('repo_test_hands', len(recs))
    run.extra['repo_tests'] = {'pytest_tail': (p.stdout.strip().splitlines() or [''])[-1], 'hands_recorded': len(recs), 'not_recorded': meta['skipped']}
    return recs


def repo_part(run: Run, prop: str):
    recs = repo_hands(run)
    if len(recs) < 100:
        raise tlc.MachineryError(f'only {len(recs)} hands recorded from the repository tests')
    validate(run, recs, f'{prop}_repository-tests', prop)
    run.sample({'from_repository_test': recs[0]['spec'].get('test'), 'hand': short_hand(recs[0])}, limit=8)
