"""C04 / C05: the hand evaluators against spec/Hands.tla.  Python enumerates inputs and records the code's answers;
TLC judges every one (validity, order, equality, labels, best legal composition)."""
from __future__ import annotations

import itertools
import random

from . import pk
from .pk import TYPE_CLASSES, int_card, card_int
from .items import run_items
from .runner import Run

FULL = list(range(52))
DECKS = {
    'StandardHigh': FULL, 'StandardLow': FULL, 'EightOrBetter': FULL, 'Regular': FULL, 'Badugi': FULL, 'StandardBadugi': FULL,
    'ShortDeck': [c for c in FULL if c // 4 >= 4], 'Kuhn': [39, 43, 47],
}
SIZES = {'Badugi': (1, 2, 3, 4), 'StandardBadugi': (1, 2, 3, 4), 'Kuhn': (1,)}
BASE = ['StandardHigh', 'StandardLow', 'ShortDeck', 'EightOrBetter', 'Regular', 'Badugi', 'StandardBadugi', 'Kuhn']


def cards_of(ints):
    return tuple(int_card(c) for c in ints)


def make(t, ints):
    """Hand(cards) on the real code -> hand or None (any exception = rejected)"""
    try:
        return TYPE_CLASSES[t](cards_of(ints))
    except (ValueError, KeyError):
        return None


def valid_item(t, ints):
    return {'kind': 'valid', 't': t, 'cards': list(ints), 'ok': make(t, ints) is not None}


def cmp_item(t, a, b, ha, hb):
    return {'kind': 'cmp', 't': t, 'a': list(a), 'b': list(b), 'lt': ha < hb, 'eq': ha == hb, 'gt': ha > hb, 'le': ha <= hb,
            'ge': ha >= hb, 'ne': ha != hb, 'heq': hash(ha) == hash(hb)}


def representatives(t, rng):
    """one card set per (rank multiset, suitedness pattern) class over the type's deck, for each hand size"""
    ranks = sorted({c // 4 for c in DECKS[t]})
    suits = sorted({c % 4 for c in DECKS[t]})
    out = []
    for k in SIZES.get(t, (5,)):
        for ms in itertools.combinations_with_replacement(ranks, k):
            if max(ms.count(r) for r in ms) > len(suits):
                continue
            distinct = len(set(ms)) == k
            pats = []
            if distinct:
                pats.append([suits[-1]] * k)                              # all one suit
                if len(suits) >= k:
                    pats.append([suits[(j + ms[0]) % len(suits)] for j in range(k)])    # rainbow
            # generic: suits assigned so that equal ranks differ; not all one suit when k > 1
            base = []
            cnt = {}
            for r in ms:
                cnt[r] = cnt.get(r, 0) + 1
                base.append(suits[(cnt[r] - 1 + r) % len(suits)])
            if k > 1 and len(set(base)) == 1:
                base[0] = suits[(suits.index(base[0]) + 1) % len(suits)]
            pats.append(base)
            if k >= 3 and distinct:                                         # two share a suit, the rest differ
                p2 = [suits[j % len(suits)] for j in range(k)]
                p2[1] = p2[0]
                pats.append(p2)
            seen = set()
            for p in pats:
                cs = tuple(r * 4 + s for r, s in zip(ms, p))
                if len(set(cs)) == k and cs not in seen and all(c in DECKS[t] for c in cs):
                    seen.add(cs)
                    out.append(cs)
    return out


def class_level(run: Run, rng):
    items = []
    for t in BASE:
        reps = representatives(t, rng)
        good = []
        for cs in reps:
            cs = list(cs)
            rng.shuffle(cs)
            h = make(t, cs)
            items.append({'kind': 'valid', 't': t, 'cards': cs, 'ok': h is not None})
            if h is not None:
                good.append((h.entry.index, cs, h))
                items.append({'kind': 'label', 't': t, 'cards': cs, 'label': h.entry.label.value})
        good.sort(key=lambda x: x[0])
        run.count(f'classes:{t}', len({g[0] for g in good}))
        # order isomorphism: consecutive classes by implementation index must be ordered the same way by the specification
        for (i0, a, ha), (i1, b, hb) in zip(good, good[1:]):
            items.append(cmp_item(t, a, b, ha, hb))
        for _ in range(min(400, len(good))):                                  # plus random pairs
            (_, a, ha), (_, b, hb) = rng.choice(good), rng.choice(good)
            items.append(cmp_item(t, a, b, ha, hb))
    return items


def concrete_items(run: Run, rng, tier, t):
    """card subsets of the deck of type t with the code's verdicts, and operator results on pairs of accepted hands"""
    items = []
    deck = DECKS[t]
    for k in SIZES.get(t, (5,)):
        total = 1
        for j in range(k):
            total = total * (len(deck) - j) // (j + 1)
        limit = (400000 if tier == 'quick' else 3000000)
        if total <= limit:
            hands = [list(c) for c in itertools.combinations(deck, k)]
            run.count(f'exhaustive:{t}:{k}', total)
        else:
            hands = [rng.sample(deck, k) for _ in range(40000)]
        objs = []
        for cs in hands:
            rng.shuffle(cs)
            h = make(t, cs)
            items.append({'kind': 'valid', 't': t, 'cards': cs, 'ok': h is not None})
            if h is not None:
                objs.append((cs, h))
        # operators on pairs: against a random other hand, against a hand of the same class with other suits,
        # and against its neighbours in the implementation's order
        if objs:
            objs_sorted = sorted(objs, key=lambda x: x[1].entry.index)
            step = max(1, len(objs_sorted) // (4000 if tier == 'quick' else 60000))
            # an exhaustively enumerated deck gets the full chain: order isomorphism over ALL its hands by transitivity
            for j in range(0, len(objs_sorted) - 1, 1 if total <= limit else step):
                (a, ha), (b, hb) = objs_sorted[j], objs_sorted[j + 1]
                items.append(cmp_item(t, a, b, ha, hb))
            for (a, ha) in objs[::step]:
                b, hb = rng.choice(objs)
                items.append(cmp_item(t, a, b, ha, hb))
                # same ranks, rotated suits: an equal hand with different cards
                rot = [(c // 4) * 4 + ((c % 4) + 1) % 4 for c in a]
                if all(c in deck for c in rot):
                    hr = make(t, rot)
                    if hr is not None:
                        items.append(cmp_item(t, a, rot, ha, hr))
    # card sets that are not hands: wrong sizes, unknown cards (a repeated card is not a card *set*: outside the quantifier)
    for k in (0, 1, 2, 3, 4, 5, 6, 7):
        for _ in range(40 if tier == 'quick' else 400):
            if k <= len(deck):
                items.append(valid_item(t, rng.sample(deck, k)))
    for _ in range(60 if tier == 'quick' else 600):
        k = rng.choice(SIZES.get(t, (5,)))
        if k <= len(deck):
            cs = rng.sample(deck, k)
            cs[rng.randrange(k)] = 52
            items.append(valid_item(t, cs))
    return items


def cross_items(run: Run, rng, tier):
    """two valid hands of two DIFFERENT types.  The rules of neither game rank such a pair against each other, so refusing
    (TypeError / not equal) is always right; but an answer, if the code gives one, has to be the answer of the rules of one of
    the two games - a hand type that inherits from another must not be compared through the other's look-up."""
    items = []

    def ans(f):
        try:
            v = f()
        except TypeError:
            return 'none'
        return 'true' if v is True else 'false' if v is False else 'none'
    pairs = [(a, b) for a in BASE for b in BASE if a != b and a != 'Kuhn' and b != 'Kuhn' and SIZES.get(a, (5,)) == SIZES.get(b, (5,))]
    by_index = {}
    for t in {p[1] for p in pairs}:
        by_index[t] = {}
        for cs in representatives(t, rng):
            h = make(t, cs)
            if h is not None:
                by_index[t].setdefault(h.entry.index, list(cs))

    def add(t1, t2, a, b, ha, hb):
        items.append({'kind': 'cross', 't1': t1, 't2': t2, 'a': list(a), 'b': list(b), 'eq': ans(lambda: ha == hb), 'ne': ans(lambda: ha != hb),
                      'lt': ans(lambda: ha < hb), 'gt': ans(lambda: ha > hb)})
        run.count('cross_type_pairs')
    for t1, t2 in pairs:
        # the pairs an implementation comparing positions in two unrelated look-ups would call equal
        n_same = 0
        for _ in range(200):
            if n_same >= (8 if tier == 'quick' else 80):
                break
            k = rng.choice(SIZES.get(t1, (5,)))
            a = rng.sample([c for c in DECKS[t1] if c in DECKS[t2]], k)
            ha = make(t1, a)
            b = by_index[t2].get(ha.entry.index) if ha is not None else None
            hb = make(t2, b) if b is not None else None
            if hb is not None and all(c in DECKS[t1] for c in b):
                add(t1, t2, a, b, ha, hb)
                n_same += 1
                run.count('cross_type_pairs_same_position')
        deck = [c for c in DECKS[t1] if c in DECKS[t2]]
        made = 0
        for _ in range(400 if tier == 'quick' else 4000):
            if made >= (12 if tier == 'quick' else 150):
                break
            k = rng.choice(SIZES.get(t1, (5,)))
            pool = deck if rng.random() < 0.5 else [c for c in deck if c // 4 <= 6 or c // 4 == 12]
            a, b = rng.sample(pool, k), rng.sample(pool, k)
            ha, hb = make(t1, a), make(t2, b)
            if ha is None or hb is None:
                continue
            made += 1
            add(t1, t2, a, b, ha, hb)
    return items


def check_C04(run: Run):
    rng = random.Random(run.seed + 4)
    items = cross_items(run, rng, run.tier)
    run_items(run, items, 'C04_cross_type', sig=lambda it, m: f"hand:{it['kind']}:{it['t1']}")
    items = class_level(run, rng)
    run.sample(items[0])
    run.sample([x for x in items if x['kind'] == 'cmp'][0])
    run_items(run, items, 'C04_classes', sig=lambda it, m: f"hand:{it['kind']}:{it['t']}")
    run.nontrivial_extra += sum(v for k, v in run.mech.items() if k.startswith('classes:'))
    for t in BASE:
        items2 = concrete_items(run, rng, run.tier, t)
        rej = [x for x in items2 if x['kind'] == 'valid' and not x['ok']]
        if rej:
            run.sample(rej[0], limit=5)
        run_items(run, items2, 'C04_concrete_' + t, jvms=4, workers=4, sig=lambda it, m: f"hand:{it['kind']}:{it['t']}")
        del items2
    run.rule = ('class level: every (rank multiset, suit pattern) class of every look-up, validity + label + order isomorphism with '
                'entry.index by consecutive comparison; concrete level: card subsets of the type\'s deck (exhaustive where the '
                'count fits the tier, else sampled), all six operators and hash on pairs; pairs of hands of two different types: any answer given is the answer of one of the two games; distinct_nontrivial = number of distinct '
                'strength classes accepted by the implementation')
    run.exhaustive = False
    run.need('classes:StandardHigh', 'classes:Badugi', 'exhaustive:Kuhn:1', 'cross_type_pairs', 'cross_type_pairs_same_position')


# ---------------------------------------------------------------------------------------------------------------------
GAME_TYPES = ['StandardHigh', 'StandardLow', 'ShortDeck', 'EightOrBetter', 'Regular', 'Omaha', 'Omaha8', 'Greek', 'Badugi',
              'StandardBadugi', 'Kuhn']
GDECK = {'ShortDeck': DECKS['ShortDeck'], 'Kuhn': DECKS['Kuhn']}


FORMS = ('tuple', 'tuple', 'list', 'iterator', 'text')


def in_form(cards, form):
    """the same cards in another admissible writing (any iterable of cards, or text)"""
    cs = cards_of(cards)
    if form == 'list':
        return list(cs)
    if form == 'iterator':
        return iter(list(cs))          # one pass only, as State.get_hand passes them
    if form == 'text':
        return ''.join(repr(c) for c in cs)
    return cs


def best_item(t, hole, board, form='tuple', entry='or_none'):
    cls = TYPE_CLASSES[t]
    if entry == 'or_none':
        h = cls.from_game_or_none(in_form(hole, form), in_form(board, form))
    else:
        try:
            h = cls.from_game(in_form(hole, form), in_form(board, form))
        except ValueError:
            h = None
    return {'kind': 'best', 't': t, 'hole': list(hole), 'board': list(board), 'found': h is not None, 'form': form, 'entry': entry,
            'cards': [] if h is None else [card_int(c) for c in h.cards]}


def shapes(t, rng):
    if t == 'Kuhn':
        return rng.choice([(1, 0), (1, 1), (1, 2), (0, 1)])
    if t in ('Badugi', 'StandardBadugi'):
        return rng.choice([(4, 0), (4, 0), (3, 0), (2, 0), (1, 0), (5, 0), (4, 1), (2, 2), (6, 0)])
    if t in ('Omaha', 'Omaha8'):
        return rng.choice([(4, 3), (4, 4), (4, 5), (4, 5), (5, 5), (6, 5), (2, 3), (2, 5), (3, 4), (4, 2), (1, 5), (4, 0)])
    if t == 'Greek':
        if rng.random() < 0.2:     # fewer hole cards than the rule needs (both hole cards + three board cards): no hand
            return rng.choice([(1, 4), (1, 5), (0, 5), (1, 3), (0, 4)])
        return (2, rng.choice([3, 4, 5, 5, 2, 0]))
    return rng.choice([(2, 5), (2, 3), (2, 4), (7, 0), (5, 0), (6, 0), (3, 4), (1, 5), (0, 5), (2, 2), (4, 0), (3, 3), (7, 1)])


def biased_deal(t, rng, nh, nb):
    deck = list(GDECK.get(t, FULL))
    n = nh + nb
    if n > len(deck):
        n = len(deck)
        nb = max(0, n - nh)
    r = rng.random()
    if r < 0.25:            # few suits: flushes, non-rainbow badugis
        ss = rng.sample(range(4), rng.choice([1, 2]))
        pool = [c for c in deck if c % 4 in ss]
    elif r < 0.5:           # few ranks: pairs, trips, boats, paired badugis
        rs = rng.sample(sorted({c // 4 for c in deck}), min(rng.choice([3, 4, 5]), len({c // 4 for c in deck})))
        pool = [c for c in deck if c // 4 in rs]
    elif r < 0.7:           # low cards (qualifying lows, wheels) incl. aces
        pool = [c for c in deck if c // 4 <= 6 or c // 4 == 12]
    elif r < 0.8:           # consecutive ranks
        lo = rng.randrange(0, 9)
        pool = [c for c in deck if lo <= c // 4 <= lo + 5 or c // 4 == 12]
    else:
        pool = deck
    if len(pool) < n:
        pool = deck
    cs = rng.sample(pool, n)
    return cs[:nh], cs[nh:nh + nb]


def check_C05(run: Run):
    rng = random.Random(run.seed + 5)
    items = []
    # exhaustive small shapes on a 9-card sub-deck chosen to contain flushes, straights, pairs and qualifying lows
    sub = [48, 0, 4, 8, 12, 13, 17, 49, 24]       # Ac 2c 3c 4c 5c 5d 6d Ad 8c
    for t in GAME_TYPES:
        if t in ('ShortDeck', 'Kuhn'):
            continue
        shp = [(2, 3), (2, 4)] if t not in ('Badugi', 'StandardBadugi') else [(4, 0), (3, 0), (5, 0)]
        if t in ('Omaha', 'Omaha8'):
            shp = [(3, 3), (2, 4), (4, 3)]
        if t == 'Greek':
            shp = [(2, 3), (2, 4), (1, 4)]
        for nh, nb in shp:
            for hole in itertools.combinations(sub, nh):
                rest = [c for c in sub if c not in hole]
                for board in itertools.combinations(rest, nb):
                    items.append(best_item(t, hole, board))
        run.count('exhaustive_subdeck:' + t, 1)
    n_rand = 2500 if run.tier == 'quick' else 40000
    for t in GAME_TYPES:
        for _ in range(n_rand if t != 'Kuhn' else 30):
            nh, nb = shapes(t, rng)
            hole, board = biased_deal(t, rng, nh, nb)
            items.append(best_item(t, hole, board, rng.choice(FORMS), rng.choice(['or_none', 'or_none', 'raising'])))
            # the same cards split differently between hole and board (the composition rule is about which is which)
            if hole and board and rng.random() < 0.3:
                allc = hole + board
                rng.shuffle(allc)
                items.append(best_item(t, allc[:len(hole)], allc[len(hole):]))
    for it in items:
        run.count('best_found' if it['found'] else 'best_none')
        run.count('cards_written_as:' + it['form'])
        run.count('entry:' + it['entry'])
        run.nontrivial.add((it['t'], tuple(sorted(it['hole'])), tuple(sorted(it['board']))))
    run.sample(items[0])
    run.sample(items[-1])
    run_items(run, items, 'C05_best', sig=lambda it, m: f"best:{it['t']}")
    run.rule = ('(hand type, hole, board) triples: all deals of small shapes from a 9-card sub-deck + shape/pattern-biased random deals '
                'over the type\'s deck, the cards written as tuples, lists, one-pass iterators or text, through from_game_or_none and from_game; non-trivial = distinct (type, hole set, board set)')
    run.need('best_found', 'best_none', 'cards_written_as:iterator', 'cards_written_as:text', 'entry:raising')
